"""Projection functions: real (float) state of molgri objects -> exact / integer values for the spec.

Nothing in here encodes an expectation about molgri; these functions only re-express observed values
(lattice coordinates, value classes, fixed point) and fail loudly (MachineryError) if an observed
value cannot be represented, so that a representation problem is never mistaken for a verdict.
"""
from __future__ import annotations

import hashlib
import math

import numpy as np

from .tlc import MachineryError

PHI = (1 + math.sqrt(5)) / 2

UNIT0 = {
    "cube3D": 1 / math.sqrt(3),                       # half the level-0 side 2/sqrt(3)
    "cube4D": 0.5,                                    # half the level-0 side 1
    "ico": 1 / math.sin(2 * math.pi / 5) / 2,         # half the level-0 side 1/sin(2pi/5)
}


class NotOnLattice(Exception):
    pass


def lattice_coords(raw: np.ndarray, kind: str, k: int, tol=1e-9):
    """Each coordinate x -> [a, b] with x = (a + b*phi) * UNIT0 / 2^k (b = 0 for the cubes)."""
    vals = np.asarray(raw, dtype=float) / UNIT0[kind] * (2 ** k)
    out = []
    if kind != "ico":
        R = np.round(vals)
        if np.max(np.abs(vals - R)) > tol:
            bad = np.unravel_index(np.argmax(np.abs(vals - R)), vals.shape)
            return _off_lattice(vals, bad, kind, k)
        return [[[int(c), 0] for c in row] for row in R]
    B = 2 ** k
    bs = np.arange(-B, B + 1)
    for row in vals:
        pt = []
        for v in row:
            a = np.round(v - bs * PHI)
            res = np.abs(v - a - bs * PHI)
            ok = np.nonzero((res < tol) & (np.abs(a) <= B))[0]
            if len(ok) != 1:
                # represent a stray value by an impossible lattice point so that the spec rejects the node
                pt.append([10 ** 6 + int(round(v * 1000)) % 1000, 10 ** 6])
            else:
                pt.append([int(a[ok[0]]), int(bs[ok[0]])])
        out.append(pt)
    return out


def _off_lattice(vals, bad, kind, k):
    """A node that is not on the lattice at all: encode it as an impossible point (the spec rejects it)."""
    R = np.round(vals)
    out = [[[int(c), 0] for c in row] for row in R]
    for i in range(len(vals)):
        if np.max(np.abs(vals[i] - R[i])) > 1e-9:
            out[i] = [[10 ** 6 + j, 10 ** 6] for j in range(vals.shape[1])]
    return out


# ---------------------------------------------------------------------------------------------
# value classes: floats of one run clustered so that "the same number" gets the same integer id
# ---------------------------------------------------------------------------------------------

class ValueClasses:
    """Single-linkage clustering of floats with relative gap `rel` (absolute `abs_` near zero).
    Use: vc = ValueClasses(); vc.add(arrays...); ids = vc.ids(array)."""

    def __init__(self, rel=1e-9, abs_=1e-12):
        self.rel, self.abs_ = rel, abs_
        self._vals = []
        self._sorted = None
        self._cls = None

    def add(self, *arrays):
        for a in arrays:
            a = np.asarray(a, dtype=float).ravel()
            if not np.all(np.isfinite(a)):
                a = a[np.isfinite(a)]
            self._vals.append(a)
        self._sorted = None

    def _build(self):
        v = np.unique(np.concatenate(self._vals)) if self._vals else np.array([])
        self._sorted = v
        if len(v) == 0:
            self._cls = np.array([], dtype=int)
            return
        gaps = np.diff(v)
        thr = np.maximum(self.abs_, self.rel * np.maximum(np.abs(v[:-1]), np.abs(v[1:])))
        self._cls = np.concatenate([[0], np.cumsum(gaps > thr)])

    def ids(self, a):
        if self._sorted is None:
            self._build()
        a = np.asarray(a, dtype=float)
        flat = a.ravel()
        fin = np.isfinite(flat)
        if len(self._sorted) == 0:
            if np.any(fin):
                raise MachineryError("ValueClasses.ids: value was not add()-ed before")
            idx = np.zeros(len(flat), dtype=int)
            out = np.zeros(len(flat), dtype=int)
        else:
            idx = np.searchsorted(self._sorted, np.where(fin, flat, self._sorted[0]))
            idx = np.clip(idx, 0, len(self._sorted) - 1)
            if not np.all((self._sorted[idx] == flat) | ~fin):
                raise MachineryError("ValueClasses.ids: value was not add()-ed before")
            out = self._cls[idx].copy()
        # values the code under test may produce but no oracle ever does: classes of their own (nan, +inf, -inf)
        out[np.isnan(flat)] = 1000001
        out[np.isposinf(flat)] = 1000002
        out[np.isneginf(flat)] = 1000003
        return out.reshape(a.shape)

    def representative(self, cid):
        if self._sorted is None:
            self._build()
        return float(self._sorted[np.nonzero(self._cls == cid)[0][0]])

    def n_classes(self):
        if self._sorted is None:
            self._build()
        return int(self._cls[-1]) + 1 if len(self._cls) else 0


def fixed(x, scale=10 ** 6):
    return int(round(float(x) * scale))


def digest(arr) -> str:
    a = np.ascontiguousarray(arr)
    return hashlib.sha256(str(a.dtype).encode() + str(a.shape).encode() + a.tobytes()).hexdigest()
