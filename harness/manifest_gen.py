"""Generate MANIFEST.json from the table below (single source of truth for what is claimed)."""
import json
from pathlib import Path

ROOT = Path(__file__).resolve().parent.parent

CHECKS = {}      # filled by register()
NOT_APPLICABLE = {}


def register(pid, text, note, technique, design_ref, category="model_checking"):
    CHECKS[pid] = dict(
        property_id=pid,
        quick_cmd=f"./check {pid} --tier quick",
        thorough_cmd=f"./check {pid} --tier thorough",
        evidence_file=f"/verif/evidence/{pid}.json",
        replay_cmd_template=f"./check {pid} --replay {{path}}",
        engine="tlc",
        level_claimed=dict(category=category, text=text, design_ref=design_ref),
        level_note=note,
        technique=technique,
    )


register("C13",
         "TLC explores the complete state graph of spec/Merge.tla (all reachable partitions of n<=4 (quick) / n<=5 (thorough) "
         "cells x all join sets / deletion sets within stated bounds) and checks the lumping invariants in every state; every "
         "edge of that graph is then replayed into the real merge_matrix_cells / delete_rate_cells from the code's own state "
         "and the whole returned state (index list, every matrix entry) must equal a spec successor, which gives an inductive "
         "argument for histories of any length over that universe; random long histories on n=6..9 and exhaustive small inputs "
         "of SQRA.cut_and_merge are validated against the spec by TLC trace validation.",
         "Bounded: n<=5 original cells for the exhaustive part; integer matrices (float64 exact); TLC and the TLA+ value parser "
         "of the harness are trusted.",
         "TLA+ model (Merge.tla) + TLC state-graph dump replayed into the implementation (spec->code), TLC trace validation of "
         "recorded histories (code->spec)", "DESIGN.md §4 C13")

register("C12",
         "Msm.tla models the window generator as a loop (one action per generator step) with a loop invariant tying the "
         "accumulated counts to the declarative lag-tau count definition; TLC checks it and the result properties (rows, "
         "unit interval, detailed balance, reversal invariance) on ALL trajectories up to length 5 (quick) / 6 (model) over 3 "
         "cells + NaN, all lags, both modes. The same domain (cardinality cross-checked with TLC's initial-state count) is "
         "run through the real MSM class and every returned matrix is validated entry by entry by TLC against the "
         "declarative definition (exact rational comparison via the common denominator 27720), plus random long "
         "trajectories with NaN runs and tau passed as int/float/str. One MSM object per trajectory serves all lags and both window modes in alternating order, so results may not depend on earlier requests.",
         "Bounded exhaustive domain plus random sampling for long trajectories; float normalisation compared exactly on the "
         "1/27720 lattice and within 1e-6 otherwise.",
         "TLA+ model (Msm.tla) checked by TLC + TLC trace validation of every implementation result (code->spec)",
         "DESIGN.md §4 C12")

register("C17",
         "GridName.tla defines the outcome RELATION (Universal for every name, Forced on the classes the statement pins down) "
         "and a reference normalisation table; TLC shows the table lies inside the relation and is idempotent for every name "
         "of up to 3 tokens from a 19-token alphabet x both roles. The real GridNameParser is then run on every (name, role) "
         "of up to 3 (quick, 14 478 pairs) / 4 (thorough, 275 120 pairs) tokens, re-parsed, the grid constructed from the "
         "standard name for N<=15, and every record is validated by TLC against the relation.",
         "Exhaustive over the stated token alphabet and length bound; names with a dimension tag are left unspecified as in "
         "the statement.",
         "TLA+ relation + reference table model-checked by TLC; exhaustive TLC trace validation of the implementation (code->spec)",
         "DESIGN.md §4 C17")

register("C19",
         "GridOutcome.tla models the life cycle of a full-grid object (Construct, then the five getters in any order, any "
         "number of times) with the size thresholds that select the exact / half-sphere / estimated cell model, and the set "
         "of outcomes the statement allows; TLC explores every configuration of the box x every getter order and checks that "
         "no outcome is an internal error and getters are pure, and exhibits the two pinned-tree defects as negative configs. "
         "The real FullGrid is then driven over the whole box (n_b, n_o in 1..5, n_t in 1..3, both modes) through the real "
         "parsers, all getters in two orders with repeats, and every call's outcome (error class or shape) is validated by "
         "TLC against the allowed set.",
         "Exhaustive over the stated box; outcome classes and shapes only (values are other properties' business).",
         "TLA+ life-cycle model checked by TLC + TLC trace validation of every implementation call (code->spec)",
         "DESIGN.md §4 C19")

register("C18",
         "Polytope.tla models subdivision operationally as the code performs it (a node at the midpoint of every edge with "
         "coinciding midpoints identified, edges replaced by halves, extra edges only between nodes of the newest level; "
         "order of the two sub-steps per polytope) over exact integer / Z[phi] lattice coordinates, and TLC shows that it "
         "produces exactly the declarative surface lattice and unit-edge set at every level (cube, icosahedron to level 3, "
         "hypercube to level 2), closed under negation, with the canonical half selecting one of each antipodal pair. The "
         "history of each real polytope object (create, get_nodes(N) cold/warm, divide_edges, ...) is logged with every "
         "node mapped to exact lattice coordinates and validated by a trace spec that takes the model's own Divide action "
         "for every logged division and compares node order, levels, indices, edges, projection and half selection, and "
         "checks the prefix relation of all get_nodes results across the history. In addition ALL short histories on fresh objects (divisions without a look in between, get_nodes / get_half_of_hypercube with small N or all, in every position) are executed and validated; the edge set is reported as an advisory only (mechanism, not statement).",
         "Levels: cube/ico to 3 (quick) / 4 (thorough), hypercube to 1 / 2; float coordinates identified with lattice points "
         "at residual < 1e-9.",
         "TLA+ operational model vs declarative lattice checked by TLC; TLC trace validation of real object histories "
         "re-using the model's action (code->spec)",
         "DESIGN.md §4 C18")

register("C20",
         "Xvg.tla is a line-oriented operational model of EnergyReader (legend scan for s0..s9 up to the first non-header "
         "line, skiprows=13, '@' as comment character) next to the declarative meaning of an xvg file; TLC checks over all "
         "header layouts ('#' 0..14, '@' 0..14, legends at any '@' positions, 0..2 rows) that they coincide inside the "
         "GROMACS envelope and shows what breaks outside it. Hundreds of files are materialised for random layouts inside "
         "the envelope (1..10 legends, texts with spaces/dots/brackets, 0..40 rows) plus the shipped GROMACS example, read by "
         "the real EnergyReader (frame, single column, csv round trip) and validated by TLC against the declarative meaning. "
         "Persist.tla models the artefact store (read returns last write); GridWriter -> files -> GridReader events on real "
         "small grids (digests of values, shape, format and stored index order) are validated by Persist_Trace. One EnergyReader object is used through a history (table and column taken, the returned column shifted and the frame sorted in place, table loaded again).",
         "Energy values on a 6-decimal lattice; legend texts without quotes; grids of the listed small sizes.",
         "TLA+ reader/store models checked by TLC + TLC trace validation of files written and read by the implementation",
         "DESIGN.md §4 C20")

register("C09",
         "FullIndex.tla models the array construction operationally (shell-major tile/repeat of directions and radii, nested "
         "loops position-outer rotation-inner, tile/repeat index helpers, order-preserving de-duplication) and TLC checks "
         "it against div/mod for all n_t, n_o, n_b <= 4 and index sequences with repeats, with three modelled order slips "
         "as negative configs. Real FullGrids (algorithm combinations x n_b in {1,2,5,8} x n_o in {1,3,7,12} x 1/2/4 radii, "
         "both position modes) are projected row by row to the ids of their generating direction / radius / rotation, the "
         "index helpers are called on None, single indices, random sequences and the reversed range, the decomposition is "
         "matched back, and TLC validates every record (row order, radii = 10 x nm input, helpers = div/mod, "
         "decomposition = identity).",
         "Row matching at 1e-9 (directions) / 1e-12 (rotations); sizes as listed.",
         "TLA+ index-arithmetic model checked by TLC + TLC trace validation of projected implementation outputs",
         "DESIGN.md §4 C09")

register("C01",
         "Sqra.tla models get_rate_matrix operationally (entry-wise D*S, division by h position by position in stored entry "
         "order, division by the row's volume, one-sided capped Boltzmann factor, diagonal = minus row sum) on the exact "
         "energy lattice E = k*2RT ln(base) with rationals, and TLC checks for all symmetric patterns on n<=3 (thorough: 4) "
         "that it equals the declarative formula, has zero row sums, satisfies detailed balance below the cap, is shift "
         "invariant and linear in D; five modelled slips are negative configs. The real SQRA class is run on all symmetric "
         "patterns for n=2..4 and random sparse patterns to n=8, five temperatures incl. the one that puts the 500 kJ/mol cap "
         "exactly on two levels, bases 2 and 3, csr / row-major coo / mixed storage, and TLC compares every entry exactly "
         "on the common-denominator lattice; shift invariance and linearity are additionally checked for random real shifts.",
         "Energies on the rational lattice (non-lattice reals only via the shift / linearity relations); S, h, V small "
         "positive integers; n <= 8.",
         "TLA+ operational-vs-declarative model checked by TLC + exact TLC trace validation of implementation outputs",
         "DESIGN.md §4 C01")

register("C03",
         "SphereCells.tla defines the Voronoi tessellation combinatorially from a vertex-centre incidence (cells adjacent iff "
         "they share >= 2 vertices; Euler's formula, >= 3 cells per vertex and total area 4*pi as self-checks of the oracle "
         "evaluated inside TLC). For every N from 4 to 60 (quick) / 162 (thorough) of ico, cube3D and randomS (every N, incl. "
         "the degenerate polytope grids) the code's adjacency, border, distance matrices and areas are logged as value "
         "classes next to the incidence and geometric atoms of a brute-force oracle, and TLC decides: symmetry, empty "
         "diagonal, one common pattern equal to the spec's adjacency, border = shared arc, distance = great-circle angle, "
         "area = cell area, positivity.",
         "The geometry (which vertices exist, arc lengths, areas) is the numeric oracle's (harness/oracles/sphere.py, "
         "brute force over all centre triples, no code shared with molgri / scipy.spatial); the spec decides structure and "
         "cross-matrix consistency. Value classes at relative 1e-9.",
         "TLA+ combinatorial definition of the Voronoi complex + TLC trace validation of the implementation against an "
         "independent brute-force oracle", "DESIGN.md §4 C03")

register("C04",
         "Fold.tla models the antipode fold operationally (index map guarded by array truthiness, in-place row sweep in column "
         "order, extraction of the upper rows/columns) against the declarative fold 'R(i,j) or R(i,j+N)' and TLC checks "
         "equality, symmetry and empty diagonal for all antipodally closed weighted relations on N<=3 (the index-0 "
         "truthiness slip, a missing fold and self-touching cells are negative configs). For cube4D and randomQ, every N in "
         "4..22 (quick) / 4..40 + samples to 60 (thorough), the full-sphere relation, face areas and folded angles of a "
         "brute-force S^3 oracle are handed to TLC, which performs the declarative fold and compares the code's three "
         "default matrices pair by pair (incl. index 0 and pairs adjacent only through the antipodal copy).",
         "Geometry of the 2N-point Voronoi complex on S^3 from the numeric oracle (all 4-subsets; face = shared vertices of "
         "rank >= 3); face areas compared at 1e-5 absolute; N <= 60.",
         "TLA+ fold model checked by TLC + TLC trace validation against an independent brute-force oracle folded by the spec",
         "DESIGN.md §4 C04")

register("C16",
         "Radial.tla defines the intended distances of every request form (list in any order, scalar, linspace(a<=b[,num]), "
         "range/arange) on exact rationals together with increments and shell boundaries, and TLC checks the interleaving "
         "r_k < R_k < r_{k+1} with R_k the midpoint, the last-boundary and single-radius rules and positivity of increments "
         "over all requests from an 8-value pool. Every abstract request (quick ~1000, thorough ~9000) is rendered in 3-4 "
         "concrete syntaxes (brackets, tuples, bare commas, linspace/np.linspace, range/arange, whitespace and decimal "
         "spelling variants) and handed to the real TranslationParser; TLC validates distances, rejection of negatives, "
         "increments, boundaries and, as a state carried along the trace, that equal bit patterns carry equal identifiers.",
         "Decimals from the stated pools (units 10^-3 nm); distances compared at 1e-5 A; linspace with start > stop left open; "
         "17 range() inputs whose float arange length includes the stop value are listed as known findings.",
         "TLA+ rational model checked by TLC + TLC trace validation of the parser on rendered strings",
         "DESIGN.md §4 C16")

register("C05",
         "Shells.tla states C05 declaratively on integer radii (units 0.05 A, boundaries = midpoints) with every output entry a "
         "pair (rational coefficient, direction atom) and models the construction of the position matrices operationally "
         "(off-diagonals at +-n_o from between_radii[:-1] / increments[1:]+[last], per-shell scaling of the unit-sphere block); "
         "TLC checks operational = declarative, symmetry of coefficients, telescoping of shell volumes and interleaving of "
         "boundaries for all radial grids of length 1..4 from a 7-value pool x n_o<=3 x all direction adjacencies; three "
         "modelled slips are negative configs. TLC then acts as evaluator: for 42 (quick) / ~1500 (thorough) combinations of "
         "unequally spaced radial grids (given in several text formats) and real direction grids of all algorithms it writes "
         "the expected structure, and the driver compares EVERY volume, border and distance entry and the three patterns of "
         "the real PositionGrid (relative 1e-9) plus the ball-volume sum. The direction atoms (cell areas, shared arcs, angles) and the direction adjacency are taken from the brute-force S^2 oracle, not from the grid's own getters.",
         "Direction atoms (area, arc, angle) come from the direction grid's own getters (decided by C03); radii on the 0.1 A "
         "lattice; float comparison at relative 1e-9 done by the driver on expectations computed by TLC.",
         "TLA+ operational-vs-declarative model checked by TLC + TLC evaluator (spec->code) compared entry by entry",
         "DESIGN.md §4 C05")

register("C02",
         "Product.tla models the block assembly of FullGrid._get_N_N operationally (truthy position entries repeated per "
         "rotation at stride n_b, rotation block on the diagonal, sum) against the declarative Cartesian product, and TLC "
         "checks equality, symmetry, empty diagonal and pattern = product of patterns for all pairs of weighted graphs on "
         "nP, nB <= 3 (stride slip as negative config). On real FullGrids (all direction x rotation algorithms, n_b = 1 or "
         ">= 4, 2-4 unequal radii, both position modes, f in {0.5,1,2,3}) the position-grid, rotation-grid and full matrices "
         "and volumes are logged as value classes with the full matrices in stored order; TLC checks symmetry, empty "
         "diagonal, one pattern and one stored order, positivity, adjacency = product, every border / distance entry = the "
         "position or rotation quantity with f^2 / f on one family (the same for both matrices), and volume(n) = "
         "posV(n div n_b) * rotV(n mod n_b) * f^3 in cell order. The family that carries the factor is STATE of the trace spec: every grid must use the same family (a grid with one rotation cannot silently drop the factor). The same grid is also evaluated in both position modes and with two factors in one process, and the volumes are asked twice.",
         "Value classes at relative 1e-9; the factor products f*v, f^2*v and posV*rotV*f^3 are computed numerically by the "
         "harness and handed to the spec as lookup tables; grids up to ~300 cells (quick) / ~1000 (thorough).",
         "TLA+ block-assembly model checked by TLC + TLC trace validation of real matrices as value classes",
         "DESIGN.md §4 C02")

register("C14",
         "Two models: Sqra.tla shows on the exact lattice that a symmetric S/h makes V_i base^(-2k_i) (Boltzmann x volume) "
         "stationary and in detailed balance, and that one asymmetric entry (the shape of the fold defect) breaks it; "
         "Molgri.tla models the pipeline over the artefact store (one directory per grid identifier; BuildGrid, Write, Read, "
         "GenPT, ComputeEnergy, BuildRate, Decompose) with the invariants one-cell-order, directories pure, memory current, "
         "read = write and rate inputs consistent, explored exhaustively for two grid specifications. The package's own "
         "classes are then driven end to end (GridWriter -> files -> GridReader -> SQRA on random lattice energies -> "
         "DecompositionTool with sigma=None/'LR' and with a shift that is no eigenvalue) and the event trace is validated by "
         "Molgri_Trace, which takes the pipeline model's action for every event and checks: digests read = written; the "
         "conductance Q_ij V_i 2^(k_j-k_i)/D recovered from the rate matrix is symmetric, sits exactly on the saved adjacency "
         "and equals S_ij/h_ij of the files in grid order; eigenvalues real, descending, within 1e-6 of the spectral radius "
         "of a dense solver, largest zero; leading left eigenvector / (V_i exp(-E_i/RT)) constant within 1e-5. Two rate matrices are built from the SAME loaded matrices (as in a temperature scan), the reference S/h is copied before the package's code sees the data, and a third solver setting uses a shift INSIDE the spectrum that is no eigenvalue (compared with the dense eigenvalues nearest to the shift).",
         "Solver clause is a tolerance band (ARPACK vs numpy dense); energies on the lattice k*2RT ln2; connected grids with "
         "n >= 16 cells for the decomposition.",
         "TLA+ pipeline + SqRA models checked by TLC; TLC trace validation of the end-to-end pipeline re-using the model's actions",
         "DESIGN.md §4 C14, §5")

register("C10",
         "Rigid.tla models the pseudotrajectory as a state machine over the one mutable moving molecule (per grid row: reset to "
         "the reference geometry, rotate about the centre of mass by the integer rotation matrix of the scalar-last "
         "quaternion, translate, emit) in pure integer arithmetic and TLC checks that every emitted frame is R(q_k) ref + p_k, "
         "one frame per row, all intramolecular distances preserved and the spec's own matrices orthogonal; frame-to-frame "
         "accumulation, a transposed matrix and the scalar-first convention are negative configs. TLC then acts as "
         "evaluator for non-grid arrays of rational unit quaternions (all integer 4-vectors of norm <= 9, random signs) and "
         "integer positions; five molecules (single atom, linear, planar, two non-planar) are written to files, read through "
         "the package's reader, run through the real Pseudotrajectory (universe and generator) and every atom of every "
         "frame, molecule 1, frame count, atom order and names are compared (1e-4 A). Rows with irrational quaternions (0.1 degree rotation scans, a real FullGrid array) are compared with the spec's rotation formula evaluated in floating point; that transliteration is itself checked against TLC's integers on every rational row.",
         "Rotations restricted to rational unit quaternions (dense in SO(3)); float32 coordinates compared at 1e-4 A; molecules "
         "with one element and centred coordinates.",
         "TLA+ integer model of the frame loop checked by TLC + TLC evaluator (spec->code) compared atom by atom",
         "DESIGN.md §4 C10")

register("C11",
         "Assign.tla states the assignment as three arg-min decisions over distance tables with a uniqueness margin, the index "
         "composition (t*n_o+o)*n_b+b and the outlier rule; TLC checks on all integer radial grids from a pool and all "
         "distances that 'nearest radius' and 'shell whose midpoint boundaries contain the distance' coincide. The driver "
         "generates rigid placements itself (the grid's own rows plus continuous random rotations and positions up to 1.2x "
         "the outer boundary), builds the frames with MDAnalysis directly, lets the real AssignmentTool assign them (both "
         "outlier modes, three molecules incl. a planar one) and logs for every frame the distances of the TRUE placement to "
         "every radius, direction and grid rotation as fixed point; TLC performs arg-min, margin, composition and the NaN "
         "rule and names the failing index. Some systems are placed away from the origin (molecule 1 not at (0,0,0)), a third of the placements lie within 12 % of the outer shell boundary, non-equidistant radial grids are run without outliers, and the package's own pseudotrajectory of a whole grid must be assigned back to 0..n-1.",
         "Distances of the true placement computed numerically by the harness (numpy) from the placement it generated itself; "
         "margin 2e-3; molecules with three distinct principal moments and no atom on a principal axis.",
         "TLA+ decision model checked by TLC + TLC trace validation of the assignment tool on generated placements",
         "DESIGN.md §4 C11")

register("C07",
         "Two parts. (1) The exact lattice statement: Polytope.tla/TLC decide on integer coordinates that the nodes of every "
         "level are pairwise distinct, closed under negation and that the canonical half holds exactly one of each "
         "antipodal pair (C18 binds this to the code); the `Rows` events then show that each polytope grid is the first N "
         "index-ordered (canonical-half) polytope nodes. (2) For ico, cube3D, randomS (every N in 1..100 quick / 1..642 + "
         "samples to 2562 thorough), cube4D, randomQ (1..40 / 1..80 + 150, 272), fulldiv and the zero grids, and for every "
         "algorithm requested BY NAME with N=1, the `Grid` events are validated by TLC: row count, unit norm, pairwise "
         "distinct, separation >= 1/sqrt(N) resp. 0.6/cbrt(N) with the bound computed in the spec by integer search, every "
         "rotation row in the canonical half, no two rows one rotation, double cover = rows followed by exact negatives, "
         "N=1 by name = z direction / identity. Zero grids requested with N != 1 must still be the single identity / z row.",
         "Norms, minimal pair distances and sign patterns are computed numerically by the harness (numpy) and logged as fixed "
         "point; sign pattern tolerance 1e-9.",
         "TLA+ lattice model checked by TLC (shared with C18) + TLC trace validation of static grid facts and prefix relation",
         "DESIGN.md §4 C07")

register("C08",
         "GridLife.tla models grid objects, the process-global random generator (abstracted to <last seed, draws since>) and "
         "getters, with the library's re-seed discipline inside each call; TLC shows for all interleavings of 2 live objects "
         "x getters x user re-seeding/drawing x dropping that the value of Create(alg,N) and of every getter is a function "
         "of the specification only (un-seeded random grid and a drawing getter are negative configs). TLC -simulate then "
         "generates behaviours over a pool of 9 real specifications; they are executed in ONE process with the global "
         "generator scrambled before every library call, and every returned array (coordinates, volumes, adjacency, "
         "borders, distances) is compared bitwise (sha256) by the trace spec with reference digests from two FRESH "
         "processes with other PYTHONHASHSEED and generator state (which must also agree with each other). The prefix "
         "claim is a trace state: the longest per-row digest sequence per algorithm, against which every N (1..45 + "
         "level boundaries quick; 1..163 / 1..99 / 1..41 + more thorough) and the polytope's own node order are checked. The volume getter is exercised with both values of its `approx` argument.",
         "Bitwise comparison between executions of the same code on the same machine; generator observed through "
         "numpy.random.seed/shuffle/random; the re-seed discipline itself is reported as an advisory count, not a verdict.",
         "TLA+ interleaving model checked by TLC; TLC -simulate behaviours replayed into the implementation (spec->code) and "
         "their recorded events validated by a trace spec (code->spec)",
         "DESIGN.md §4 C08")

register("C15",
         "The structural clauses of C15 are decided by TLC on every logged `Volumes` event: N < 4 returns exactly the equal "
         "share pi^2/N (4 pi/N for directions); for N >= 4 there are N positive values, bitwise the first N of the 2N "
         "double-cover volumes, summing to pi^2 within 12 %; each value lies within 30 % of the measure of the set of "
         "rotations nearest to that grid rotation, where the measure is an independent Monte-Carlo nearest-rotation count "
         "(3e5 samples quick, 2e6 thorough) whose per-cell standard error is handed to the spec and widens the band by 4 "
         "sigma. The life cycle of the getter (pure, history independent) is the GridLife.tla model. cube4D and randomQ, "
         "every N in 1..24 (quick) / 1..60 + samples to 272 (thorough). Three grids are read through the FullGrid that owns them after it computed its 6D volumes twice and after a caller normalised a returned array in place.",
         "The true measures are a Monte-Carlo estimate (numeric trusted base); TLA+ contributes band arithmetic and the "
         "structural clauses only - the weakest use of the specification among the 20 properties (DESIGN §7).",
         "TLC trace validation of volume events against an independent Monte-Carlo oracle; TLA+ life-cycle model",
         "DESIGN.md §4 C15, §7")

register("C06",
         "Mechanism: Polygon.tla is an exact operational model of order_points + get_polygon_area on convex lattice polygons "
         "(centroid, reference normal, signed-angle keys compared exactly through cross-multiplied integers, stable sort, "
         "fan triangulation); TLC checks it against the shoelace area for ALL 2 694 (quick) / ~30 000 (thorough) strictly "
         "convex lattice polygons with 3..6 vertices of a 4x4 / 5x5 window and every choice of first and second vertex; "
         "with the pinned tree's sign(0) rule TLC returns the counterexample. 12 000 of those inputs, embedded in three "
         "planes by integer affine maps, are replayed into the real functions and validated by TLC against the spec's own "
         "shoelace area. Grids: PositionGrid(cartesian=True) of all algorithms with 1-3 radii against a brute-force R^3 "
         "Voronoi oracle; TLC checks volumes (closed cells) = oracle, positivity, borders/distances symmetric and on the "
         "adjacency pattern, border = shared face area, distance = Euclidean distance. The extended point set (one extra shell at the last radius plus the last increment) is built by the harness from the radii and directions and must coincide with the implementation's.",
         "Grid part relative to the numeric oracle harness/oracles/r3.py (all 4-subsets, no scipy.spatial / molgri code), "
         "value classes at 1e-7; extended point sets up to ~60 (quick) / ~90 (thorough) points; cells whose Euclidean region "
         "is open are unconstrained in value.",
         "TLA+ exact operational model checked exhaustively by TLC + polygons replayed into the implementation + TLC trace "
         "validation of grids against an independent brute-force oracle", "DESIGN.md §4 C06")

# later strengthenings (after the two rounds of seeded changes, DESIGN 11.8), appended to the level text
EXTRA = {
    "C01": " Level differences up to 495 kJ/mol (just below the cap) are covered by records whose entries are logged as mantissa and "
           "exponent (m * 2^e / 36) and compared exactly by SqraOps!QWide; shift invariance is also tried with offsets of +-tens of "
           "thousands of kJ/mol. "
           "Cell volumes are given in units of 2^-30, 2^-45 or 2^20 (exact rescaling), so tiny and huge positive volumes are covered. The position of the one-sided cap is checked on a two-cell system with E_0 - E_1 in {499, 500, 500.5, 503, 650} kJ/mol.",
    "C02": " Every second grid is first asked for the partial (position-only / orientation-only) matrices of workflow run_grid; the "
           "total volumes are asked twice; a rotation grid with faces below 1e-5 (randomQ_44) is part of the plan.",
    "C03": " Before the checked read each grid goes through a getter history: the documented numerical estimate of the areas is "
           "asked first (odd N) or after the exact areas (even N), every matrix is asked twice, and for N divisible by 3 a caller "
           "converts the handed-out matrices and areas in place (sound on the pinned tree, whose getters hand out fresh objects).",
    "C04": " Beyond the brute-force bound (randomQ_60, randomQ_84; thorough: every 8th N to 124, and 150) structure-only records "
           "check that every getter answers, symmetry, empty diagonal, one pattern, positivity and that every stored distance is "
           "the sign-folded angle of the two quaternions. Face areas are compared at 1e-8 absolute.",
    "C05": " Every getter is asked twice on the same PositionGrid; the second answer is the checked one.",
    "C06": " The polygon inputs are additionally replayed at several sizes (embedding scales down to 1e-4). "
           "Polygons are also embedded anisotropically (40:1, 50:1): long narrow faces.",
    "C07": " For rotation grids a caller first flips the half array handed out by the default getter in place (a copy on the pinned "
           "tree); the grid read afterwards is the checked one. "
           "The quick tier samples rotation grids up to N = 150 (randomQ 64, 100, 150; cube4D 64), the thorough tier every randomQ N to 272.",
    "C08": " Getters now include the convex hulls with and without helper points and the polytope nodes; error classes are "
           "compared as values.",
    "C09": " The array is asked repeatedly before the checked read (single-radius and single-direction grids included). "
           "A 70 000-row grid (index helpers around 2^15 and 2^16) and radii with 17 decimals on ico_42 are part of the plan.",
    "C10": " Generator frames are also held (not consumed one by one) before comparison, and the PtWriter path is run with "
           "uncentred molecule files of different centres. "
           "The first molecule is water-shaped, a single atom or non-planar in turn, and every row list contains exactly repeated rows.",
    "C13": " For every second input of the cut_and_merge enumeration ONE SQRA object serves all nine limit settings, limited "
           "calls first.",
    "C14": " The grid object is also asked for the partial matrices of workflow run_grid before / between the full ones (event "
           "Inspect, stuttering in the pipeline model), and the second rate build uses energies with a common offset of "
           "-25000 .. +30000 kJ/mol. "
           "The second rate build also has steps of 17-40 energy levels between neighbouring cells; the spectral clauses are checked on the gentle landscape.",
    "C15": " For N = 1 mod 3 the plain (vertex-only) hulls of the double-cover diagram are asked before the volumes.",
    "C18": " The quick tier now subdivides cube and icosahedron four times (1538 / 2562 nodes). "
           "The quick tier also subdivides the hypercube twice.",
}
EXTRA["C11"] = (" A planar molecule 40 A away from the origin (float32 coordinate noise) and water-shaped molecules in both atom orders (apex "
                "first / last) are part of the plan; both found defects of the pinned tree that are repaired (10a5ec9, 25e1d5d).")
EXTRA["C16"] = " Requests are also rendered with whitespace around them, and range requests whose stop lies 1e-3 nm above a grid point are included."
EXTRA["C17"] = " The quick tier adds 6000 random names of four and five tokens."
EXTRA["C02"] += (" Every answer is snapshotted when the call returns, the border matrix is asked again after the distance matrix, and the adjacency / "
                 "distance getters are asked once more with only_position / only_orientation: each partial matrix must be exactly the part of the "
                 "full matrix between cells at one position / with one rotation (PartClause).")
EXTRA["C04"] += (" Within the brute-force bound the adjacency getter is also asked with its documented options on the same object: the 2N x 2N "
                 "double-cover matrix, the row-swept double-cover matrix and the half matrix without opposing neighbours are the intermediate "
                 "states of Fold.tla (M, the sweep, the cut) and are compared with the oracle's face relation (OptClause).")
EXTRA["C05"] += " Equidistant radial grids are written alternately as range(start, stop, step) and linspace(start, stop, n) texts."
EXTRA["C08"] += (" The N x N getters are also asked with their documented options (only_upper=False, include_opposing_neighbours=False) on the "
                 "same objects, in the orders the model generates.")
EXTRA["C09"] += " For an even number of radii a caller converts the array it was handed to nm and reverses it in place before asking again."
EXTRA["C13"] += (" Random histories on 10, 21 and 40 rows contain mass deletions (all but 1-5 cells removed at once, survivors with high row numbers), "
                 "what the combined step does with an upper limit on a steep landscape.")
EXTRA["C19"] = (" Fourteen specifications with named algorithms beyond the box (cube4D_12 / _41, fulldiv_8 / _40, randomQ_9, zero grids, ico_13, cube3D_9 ...) "
                "are created one after the other in ONE process in a seeded order and in the reverse order, every getter asked in a random order.")
for _pid, _txt in EXTRA.items():
    CHECKS[_pid]["level_claimed"]["text"] += _txt
CHECKS["C04"]["level_note"] = CHECKS["C04"]["level_note"].replace("face areas compared at 1e-5 absolute; N <= 60", "face areas compared at 1e-8 absolute; brute-force complex for N <= 60, structure-only beyond")

ALL = [f"C{i:02d}" for i in range(1, 21)]


def build():
    na = []
    for pid in ALL:
        if pid not in CHECKS:
            na.append(dict(property_id=pid, reason=NOT_APPLICABLE.get(pid, "check not built yet in this session (work in progress; see DESIGN.md §10)")))
    m = dict(
        version=1,
        setup_cmd="cd /verif && ./check --setup",
        hooks=dict(guard="MOLGRI_VERIF", enable="none needed: the checks import molgri from /repo's working tree (pure python); no hook commits exist",
                   baseline_off_cmd="cd /repo && /venv/bin/python -m pytest -ra -q -p no:cacheprovider --timeout=900 --continue-on-collection-errors",
                   source_commits=[], add_only=True),
        engines=[dict(name="tlc", path="/opt/veriftools/tla/tla2tools.jar", serves_properties=sorted(CHECKS),
                      kind_free_text="TLA+ specifications under /verif/spec checked with TLC 1.8 (exhaustive, -simulate, -dump dot, trace validation); python harness binds them to molgri")],
        checks=[CHECKS[p] for p in sorted(CHECKS)],
        notes="Known findings: /verif/known_findings.json. Fix commits in /repo start with 'fix:' (12, listed in DESIGN.md 11.4). Beyond the twenty claimed properties the specification is bound to the code by growth checks G01-G15 (./check Gxx, evidence under evidence_growth/, DESIGN.md 11.7), binding demonstrations (./check --selftest) and TLAPS proofs (./check --proofs); seeded/ holds 151 confirmed breaking changes from five rounds of sub-agents and refactors/ 60 property-preserving ones used to test the checks (DESIGN.md 11.8-11.10).",
        not_applicable=na,
    )
    # never write an invalid manifest
    import re
    assert all(re.fullmatch(r"C\d\d", c["property_id"]) for c in m["checks"]), "bad property id in CHECKS"
    assert sorted(c["property_id"] for c in m["checks"]) + sorted(x["property_id"] for x in na) == sorted(ALL) or \
        sorted([c["property_id"] for c in m["checks"]] + [x["property_id"] for x in na]) == ALL
    try:
        import jsonschema
        jsonschema.validate(m, json.load(open("/root/.vp/MANIFEST.schema.json")))
    except ImportError:
        pass
    (ROOT / "MANIFEST.json").write_text(json.dumps(m, indent=1) + "\n")
    return m


if __name__ == "__main__":
    m = build()
    print("checks:", [c["property_id"] for c in m["checks"]], "n/a:", len(m["not_applicable"]))
