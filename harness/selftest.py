"""./check --selftest : demonstrate that the trace specs BIND — a record taken from the real code is
accepted, the same record with one logged field corrupted (or one event dropped) is rejected, and the
negative model configurations are found by TLC.  Exit 0 iff every demonstration behaves as required."""
from __future__ import annotations

import copy
import json
import random
import shutil

import numpy as np

from .core import Ctx, ROOT, quiet
from .tlc import MachineryError


def _run(ctx, module, cfg, recs, name):
    for i, r in enumerate(recs):
        r["tid"] = i
    return ctx.validate(module, cfg, recs, name=name)


def main() -> int:
    ctx = Ctx("SELFTEST", "quick", 1)
    ctx.only_key = "selftest"          # never touch evidence / replays
    rng = random.Random(1)
    results = []

    def expect(name, rejects, want_rejected_tids):
        got = sorted({r[0] for r in rejects})
        ok = got == sorted(want_rejected_tids)
        results.append((name, ok, f"rejected tids {got}, expected {sorted(want_rejected_tids)}"))

    # C12: a true MSM record vs one transition-matrix entry changed by 1/27720
    from .drivers import c12
    good = c12.call((0, 1, 1, 2, 0), 1, False, 4, c12.SCALE)
    bad = copy.deepcopy(good)
    bad["T"][0][1] += 1
    expect("Msm_Trace: one matrix entry off by 1/27720", _run(ctx, "Msm_Trace", "Msm_Trace.cfg", [good, bad], "st_msm"), [1])

    # C13: a real history vs the same history with one index-list entry swapped and one with a dropped step
    from .drivers import c13
    recs = c13.random_histories(ctx, 1, 6, 5, random.Random(3))
    good = recs[0]
    bad1 = copy.deepcopy(good)
    for op in bad1["ops"]:
        if op["mat"]:
            op["mat"][0][0] += 1
            break
    bad2 = copy.deepcopy(good)
    if len(bad2["ops"]) > 1:
        del bad2["ops"][0]
    rej = _run(ctx, "Merge_Trace", "Merge_Trace.cfg", [good, bad1, bad2], "st_merge")
    got = sorted({r[0] for r in rej})
    results.append(("Merge_Trace: corrupted matrix entry / dropped operation", 0 not in got and 1 in got, f"rejected tids {got}"))

    # C17: a real parser outcome vs a swapped role
    from .drivers import c17
    out = c17.parse("ico_7", "o")
    good = dict(name=["ico", "7"], role="o", out=out, re=c17.parse("ico_7", "o"), built=-3)
    bad = dict(name=["ico", "7"], role="b", out=out, re=out, built=-3)
    expect("GridName_Trace: direction algorithm accepted in the rotation role", _run(ctx, "GridName_Trace", "GridName_Trace.cfg", [good, bad], "st_gn"), [1])

    # C09: a real grid vs two array rows exchanged
    from .drivers import c09
    good = c09.record("4", "5", [0.2, 0.3], False, rng)
    bad = copy.deepcopy(good)
    bad["rows"][1], bad["rows"][2] = bad["rows"][2], bad["rows"][1]
    expect("FullIndex_Trace: two rows of the full array exchanged", _run(ctx, "FullIndex_Trace", "FullIndex_Trace.cfg", [good, bad], "st_fi"), [1])

    # C01: a real rate matrix vs one off-diagonal entry scaled
    from .drivers import c01
    good = c01.one(3, [(0, 1), (1, 2)], [(2, 1), (1, 3)], [1, 2, 3], [0, 2, 1], 1, 300.0, 2, "csr", rng)
    bad = copy.deepcopy(good)
    bad["Qc"][0][1] *= 2
    expect("Sqra_Trace: one rate doubled", _run(ctx, "Sqra_Trace", "Sqra_Trace.cfg", [good, bad], "st_sq"), [1])

    # C16: a real parse vs a shifted boundary
    from .drivers import c16
    req = dict(kind="list", vals=[300, 100, 250])
    good = c16.observe("[0.3, 0.1, 0.25]")
    good["req"] = req
    good["bits"] = 0
    good.pop("bits_digest", None)
    bad = copy.deepcopy(good)
    bad["bet5"][-1] += 5000
    expect("Radial_Trace: last shell boundary moved by 0.05 A", _run(ctx, "Radial_Trace", "Radial_Trace.cfg", [good, bad], "st_rad"), [1])

    # G04: a true distance record vs the same record with the sign fold forgotten (pi - theta reported)
    base = dict(ev="dist", err="", exact=True, q=[1, 1, 1, 1], p=[-2, 0, 0, 0], rows=[], a=[], b=[], x=[0, 0, 1], y=[0, 0, 1], arr=[], k=0,
                upper=True, out=0, out6=2, idx=[], **{"is": False})
    bad = copy.deepcopy(base)
    bad["out6"] = 4
    cover = dict(base, ev="cover", rows=[[-2, 0, 0, 0], [1, -1, 1, 1]], out=[[2, 0, 0, 0], [1, -1, 1, 1], [-2, 0, 0, 0], [-1, 1, -1, -1]])
    badcover = dict(cover, out=[[2, 0, 0, 0], [-2, 0, 0, 0], [1, -1, 1, 1], [-1, 1, -1, -1]])
    expect("Quat_Trace: unfolded quaternion angle / interleaved double cover", _run(ctx, "Quat_Trace", "Quat_Trace.cfg", [base, bad, cover, badcover], "st_quat"), [1, 3])

    # G07: a true parameter-file history vs one where the edit hit the second matching line / a call was dropped
    ln = lambda k, v, c=False: dict(key=k, val=v, cmt=c)
    h = lambda tid, steps: [{**dict(tid=tid, p=[], v=0, out=0, outcmt=False, err=""), **st} for st in steps]
    good = h(0, [dict(op="init", lines=[ln([1, 2], 5), ln([1], 7, True)]), dict(op="modify", p=[1], v=3, lines=[ln([1], 3), ln([1], 7, True)]),
                 dict(op="read", p=[1], out=3, lines=[ln([1], 3), ln([1], 7, True)])])
    bad = h(1, [dict(op="init", lines=[ln([1, 2], 5), ln([1], 7, True)]), dict(op="modify", p=[1], v=3, lines=[ln([1, 2], 5), ln([1], 3)]),
                dict(op="read", p=[1], out=3, lines=[ln([1, 2], 5), ln([1], 3)])])
    dropped = h(2, [dict(op="init", lines=[ln([2], 5)]), dict(op="read", p=[2], out=4, lines=[ln([2], 4)])])
    rej = ctx.validate("KVFile_Trace", "KVFile_Trace.cfg", good + bad + dropped, name="st_kv")
    expect("KVFile_Trace: edit of the wrong line / unlogged edit before a read", rej, [1, 2])

    # C02: a real full grid vs the same record with two cells' volumes exchanged
    try:
        from .drivers import c02
        good = c02.record("4", "5", "[0.2, 0.3]", False, 2)
        bad = copy.deepcopy(good)
        i = next(k for k in range(1, len(bad["vol"])) if bad["vol"][k] != bad["vol"][0])
        bad["vol"][0], bad["vol"][i] = bad["vol"][i], bad["vol"][0]
        expect("Product_Trace: two 6D volumes exchanged", _run(ctx, "Product_Trace", "Product_Trace.cfg", [good, bad], "st_prod"), [1])
    except Exception as ex:
        results.append(("Product_Trace demo", False, repr(ex)[:200]))

    # C04 / C03: a real grid vs one distance class changed / one adjacency pair dropped
    try:
        from .drivers import c04, c03
        good = c04.record("cube4D", 6)
        bad = copy.deepcopy(good)
        bad["dists"][0][2] = bad["dists"][0][2] + 1 if bad["dists"][0][2] + 1 != bad["dists"][1][2] else bad["dists"][0][2] + 2
        expect("Fold_Trace: one rotation distance moved to another value class", _run(ctx, "Fold_Trace", "Fold_Trace.cfg", [good, bad], "st_fold"), [1])
        good = c03.record("ico", 9)
        bad = copy.deepcopy(good)
        drop = bad["adj"][0]
        bad["adj"] = [p for p in bad["adj"] if p != drop and p != drop[::-1]]
        expect("SphereCells_Trace: one neighbour pair missing from the adjacency", _run(ctx, "SphereCells_Trace", "SphereCells_Trace.cfg", [good, bad], "st_s2"), [1])
    except Exception as ex:
        results.append(("Fold_Trace / SphereCells_Trace demos", False, repr(ex)[:200]))

    # C14 / pipeline: a real pipeline trace vs the same trace with the Read(volumes) event removed (a hook removed)
    try:
        from .drivers import c14
        import pathlib
        gd = ctx.scratch / "st_pipe"
        gd.mkdir(exist_ok=True)
        ev = []
        c14.pipeline(0, ("1", "4", "[0.2, 0.35]", False, 2), gd, random.Random(4), ev)
        cut = [dict(e, tid=1) for e in ev if not (e["ev"] == "Read" and e.get("art") == "volumes")]
        cut.insert(0, dict(tid=1, ev="NewSpec", err=""))
        cfg = ctx.cfg("st_mt.cfg", "SPECIFICATION TraceSpec\nCONSTANTS\n  Specs = {0, 1}\n  Bug = \"none\"\nINVARIANT OneCellOrder\nPOSTCONDITION AllConsumed\n")
        rej = ctx.validate("Molgri_Trace", cfg, ev + cut, name="st_pipe")
        got = sorted({r[0] for r in rej})
        results.append(("Molgri_Trace: a Read event removed from a recorded pipeline (BuildRate no longer enabled in the model)", got == [1], f"rejected tids {got}, expected [1]"))
    except Exception as ex:
        results.append(("Molgri_Trace demo", False, repr(ex)[:200]))

    # G09: a hand-written collection vs a failed frame dropped from the table
    frame = lambda *kv: [dict(kind=k, v=v) for k, v in kv]
    files = [frame(("final", -76100000), ("time", 0)), frame(("other", 0), ("time", 0)), frame(("final", -76300000), ("final", -76200000))]
    good = dict(files=files, table=[-76100000, 0, -76200000], kj9=0, names_ok=True, inp_ok=True, err="")
    bad = dict(good, table=[-76100000, -76200000])
    bad2 = dict(good, table=[-76100000, 0, -76300000])
    expect("Orca_Trace: failed frame dropped / first instead of last energy", _run(ctx, "Orca_Trace", "Orca_Trace.cfg", [good, bad, bad2], "st_orca"), [1, 2])

    # G14: a hand-written history of size views vs one answer off by a factor / a view answering differently the second time
    new = lambda t: dict(tid=t, op="new", b=3, o=4, t=2, v="", val=0, err="")
    ask = lambda t, v, val: dict(tid=t, op="ask", b=0, o=0, t=0, v=v, val=val, err="")
    recs = [new(0), ask(0, "rows", 24), ask(0, "len", 24), ask(0, "posLen", 8), ask(0, "rows", 24),
            new(1), ask(1, "rows", 24), ask(1, "len", 8), ask(1, "posLen", 8),
            new(2), ask(2, "posRows", 8), ask(2, "bN", 3), ask(2, "posRows", 24)]
    expect("FullViews_Trace: len without the rotation factor / a view answering differently when asked again",
           ctx.validate("FullViews_Trace", "FullViews_Trace.cfg", recs, name="st_views"), [1, 2])

    # G15: a hand-written set_up_io history vs Setup that empties a folder / an example sorted into the wrong folder
    folders = ["output/data/energies", "output/data/pt_files", "input", "output/figures", "output/animations", "output/data/logging",
               "output/data/autosave", "input/logbook", "output/data/traj_files", "experiments", "molgri/examples"]
    ex = [dict(id=0, ext="gro", ico=True), dict(id=1, ext="gro", ico=False), dict(id=2, ext="txt", ico=True)]
    rec = lambda t, op, dirs, files, paths, **kw: dict(dict(tid=t, op=op, f="", id=-1, r="", examples=ex, err="", dirs=dirs, files=files, paths=paths), **kw)
    fl = lambda *x: [dict(f=a, id=b, cls=c) for a, b, c in x]
    good = [rec(0, "init", [], [], "defaults"), rec(0, "Setup", folders, [], "defaults"), rec(0, "Add", folders, fl(("input", 1, "user")), "defaults", f="input", id=1),
            rec(0, "Setup", folders, fl(("input", 1, "user")), "defaults"),
            rec(0, "Copy", folders, fl(("input", 1, "example"), ("output/data/pt_files", 0, "example")), "defaults")]
    bad1 = [dict(r, tid=1) for r in good]
    bad1[3] = dict(bad1[3], files=[])                                     # the second Setup emptied the input folder
    bad2 = [dict(r, tid=2) for r in good]
    bad2[4] = dict(bad2[4], files=fl(("input", 1, "example"), ("input", 0, "example")))     # the ico .gro file sorted into input
    expect("IOSetup_Trace: Setup empties a folder / an example sorted into the wrong folder",
           ctx.validate("IOSetup_Trace", "IOSetup_Trace.cfg", good + bad1 + bad2, name="st_io"), [1, 2])

    # negative model configurations (each must be found by TLC)
    try:
        ctx.mutant("Fold", ctx.cfg("st_fold.cfg", "SPECIFICATION Spec\nCONSTANTS\n  N = 3\n  Weights = {1, 2}\n  Bug = \"zeroIndexFalsy\"\n  AllowSelfTouch = FALSE\nINVARIANT Symmetric\n"), "Symmetric")
        ctx.mutant("Merge", ctx.cfg("st_merge.cfg", "SPECIFICATION Spec\nCONSTANTS\n  N = 4\n  MatKind = \"zerorow\"\n  MaxJ = 1\n  MaxLen = 2\n  MaxD = 1\n  Bug = \"noRenorm\"\nINVARIANT ZeroRowSumKept\n"), "ZeroRowSumKept")
        results.append(("negative model configs (Fold zeroIndexFalsy, Merge noRenorm)", True, "TLC found both"))
    except MachineryError as ex:
        results.append(("negative model configs", False, str(ex)[:200]))

    bad = 0
    for name, ok, info in results:
        print(("ok   " if ok else "FAIL ") + name + " — " + info)
        bad += (not ok)
    shutil.rmtree(ctx.scratch, ignore_errors=True)
    return 0 if bad == 0 else 2
