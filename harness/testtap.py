"""pytest plugin (`-p harness.testtap`): records the calls the REPOSITORY'S OWN tests make into a few functions of molgri
(arguments and results, projected) as JSON lines in $VERIF_TAP_FILE.  Nothing in /repo is changed: the wrappers are
installed on the imported modules before the test modules import from them.  Used by growth check G12, which validates the
recorded calls with the trace specs of C13, C16 and C17 - the tests' own inputs, the specs' assertions."""
from __future__ import annotations

import functools
import json
import os

import numpy as np

_OUT = os.environ.get("VERIF_TAP_FILE")
_ids = {}          # id(index list handed out) -> history (list of ops) that produced it
_keep = []         # keep handed-out objects alive so that ids stay unique


def _emit(rec):
    if _OUT:
        with open(_OUT, "a") as f:
            f.write(json.dumps(rec) + "\n")


def _dense(m):
    a = m.toarray() if hasattr(m, "toarray") else np.asarray(m)
    return np.asarray(a, dtype=float)


def _wrap_merge(fn, opname):
    @functools.wraps(fn)
    def wrapped(*args, **kwargs):
        names = ("my_matrix", "all_to_join" if opname == "Merge" else "to_remove", "index_list")
        bound = dict(zip(names, args))
        bound.update(kwargs)
        matrix_in, arg, ilist_in = bound.get("my_matrix"), bound.get(names[1]), bound.get("index_list")
        parent = _ids.get(id(ilist_in)) if ilist_in is not None else None
        base = dict(kind="sparse" if hasattr(matrix_in, "toarray") else "dense")
        op = dict(op=opname, arg=[[int(x) for x in sub] for sub in arg] if opname == "Merge" else [int(x) for x in arg], err="", ilist=[], mat=[], exact=True)
        try:
            out = fn(*args, **kwargs)
        except Exception as ex:
            op["err"] = type(ex).__name__
            _emit(dict(call=opname, parent_known=parent is not None or ilist_in is None, base=base,
                       m_in=_dense(matrix_in).tolist(), history=(parent or []) + [op]))
            raise
        mat_out, ilist_out = out
        d = _dense(mat_out)
        op["ilist"] = [[int(x) for x in g] for g in ilist_out]
        op["exact"] = bool(np.all(d == np.round(d)))
        op["mat"] = np.round(d).astype(int).tolist()
        hist = (parent or []) + [op]
        _ids[id(ilist_out)] = hist
        _keep.append(ilist_out)
        _emit(dict(call=opname, parent_known=parent is not None or ilist_in is None, base=base, m_in=_dense(matrix_in).tolist(), history=hist))
        return out
    return wrapped


def _install():
    import molgri.molecules.rate_merger as rm
    rm.merge_matrix_cells = _wrap_merge(rm.merge_matrix_cells, "Merge")
    rm.delete_rate_cells = _wrap_merge(rm.delete_rate_cells, "Delete")
    import molgri.naming as nm
    orig_g = nm.GridNameParser.__init__

    @functools.wraps(orig_g)
    def g_init(self, name_string, o_or_b="o", *a, **k):
        try:
            orig_g(self, name_string, o_or_b, *a, **k)
        except Exception as ex:
            _emit(dict(call="GridNameParser", name=str(name_string), role=str(o_or_b), err=type(ex).__name__, std=""))
            raise
        _emit(dict(call="GridNameParser", name=str(name_string), role=str(o_or_b), err="", std=self.get_standard_grid_name()))
    nm.GridNameParser.__init__ = g_init
    import molgri.space.translations as tr
    orig_t = tr.TranslationParser.__init__

    @functools.wraps(orig_t)
    def t_init(self, user_input, *a, **k):
        try:
            orig_t(self, user_input, *a, **k)
        except Exception as ex:
            _emit(dict(call="TranslationParser", text=str(user_input), err=type(ex).__name__))
            raise
        _emit(dict(call="TranslationParser", text=str(user_input), err=""))
    tr.TranslationParser.__init__ = t_init
    # inputs only (the grids are re-built and projected by the drivers of C07 / C09)
    import molgri.space.rotobj as ro
    orig_c = ro.SphereGridFactory.create.__func__ if hasattr(ro.SphereGridFactory.create, "__func__") else ro.SphereGridFactory.create

    def create(cls, alg_name, N, dimensions, *a, **k):
        _emit(dict(call="SphereGridFactory.create", alg=str(alg_name), N=(int(N) if N is not None else -1), dim=int(dimensions)))
        return orig_c(cls, alg_name, N, dimensions, *a, **k)
    try:
        ro.SphereGridFactory.create = classmethod(create)
    except Exception:
        pass
    import molgri.space.fullgrid as fgm
    orig_f = fgm.FullGrid.__init__

    @functools.wraps(orig_f)
    def f_init(self, b_grid_name, o_grid_name, t_grid_name, *a, **k):
        _emit(dict(call="FullGrid", b=str(b_grid_name), o=str(o_grid_name), t=str(t_grid_name),
                   cartesian=bool(k.get("position_grid_cartesian", False)), factor=float(k.get("factor", 2))))
        orig_f(self, b_grid_name, o_grid_name, t_grid_name, *a, **k)
    fgm.FullGrid.__init__ = f_init


if _OUT:
    _install()
