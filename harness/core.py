"""Check context: evidence, known findings, violation protocol, scratch dir."""
from __future__ import annotations

import contextlib
import hashlib
import io
import json
import os
import shutil
import sys
import time
from pathlib import Path

from . import tlc as T
from .tlc import MachineryError

ROOT = Path(__file__).resolve().parent.parent
EVID = ROOT / "evidence"
REPLAYS = ROOT / "replays"
KNOWN = ROOT / "known_findings.json"
LEVEL = "model_checking"


def jsonable(x):
    import numpy as np
    if isinstance(x, (np.integer,)):
        return int(x)
    if isinstance(x, (np.floating,)):
        return float(x)
    if isinstance(x, np.ndarray):
        return x.tolist()
    if isinstance(x, (set, frozenset)):
        return sorted((jsonable(v) for v in x), key=lambda v: json.dumps(v, sort_keys=True, default=str))
    if isinstance(x, dict):
        return {str(k): jsonable(v) for k, v in x.items()}
    if isinstance(x, (list, tuple)):
        return [jsonable(v) for v in x]
    if isinstance(x, (str, int, float, bool)) or x is None:
        return x
    return str(x)


@contextlib.contextmanager
def quiet():
    """molgri prints a lot; keep the check's stdout for verdict lines only."""
    buf = io.StringIO()
    with contextlib.redirect_stdout(buf):
        yield buf


class Ctx:
    def __init__(self, pid: str, tier: str, seed: int, replay: str | None = None, level: str = LEVEL):
        self.pid, self.tier, self.seed, self.replay = pid, tier, seed, replay
        self.level = level
        self.t0 = time.time()
        self.scratch = ROOT / ".scratch" / f"{pid}_{tier}_{os.getpid()}"
        shutil.rmtree(self.scratch, ignore_errors=True)
        self.scratch.mkdir(parents=True)
        self.cov = dict(states=0, transitions=0, traces_validated_against_impl=0, samples=[],
                        evaluations=0, distinct_nontrivial=0, rule="", exhaustive=False,
                        tlc_runs=[], trusted_base=[], model_mutants_killed=0)
        self.assumptions: list[str] = []
        self.violations: list[dict] = []
        self.known_hit: dict[str, str] = {}
        self._known = self._load_known()
        self._nontrivial: set = set()
        self.only_key: str | None = None      # --replay: report only this failing case

    # ------------------------------------------------------------------ known findings
    def _load_known(self):
        if not KNOWN.exists():
            return []
        data = json.loads(KNOWN.read_text())
        return [f for f in data.get("findings", []) if f["property"] == self.pid]

    def known_keys(self):
        return {f["key"] for f in self._known}

    def cfg(self, name: str, text: str) -> str:
        """Write a generated TLC config into the scratch dir; returns its absolute path."""
        p = self.scratch / name
        p.write_text(text)
        return str(p)

    # ------------------------------------------------------------------ TLC wrappers
    def model(self, module: str, cfg: str, *, coverage_required: list[str] | None = None, timeout=900,
              workers=4, env=None, heap="8g", note: str | None = None):
        """Exhaustive TLC run of a model config whose invariants must hold (the spec is mine: a
        failure is a machinery error). Accumulates states/transitions into the evidence."""
        r = T.run_tlc(module, cfg, workdir=self.scratch, workers=workers, timeout=timeout, env=env,
                      coverage=bool(coverage_required), heap=heap)
        T.require_ok(r, f"model {module}/{cfg}")
        if coverage_required:
            for a in coverage_required:
                if a not in r.coverage or r.coverage[a][1] == 0:
                    raise MachineryError(f"vacuity: action {a} never taken in {module}/{cfg}: {r.coverage}")
        self.cov["states"] += r.distinct
        self.cov["transitions"] += r.generated
        self.cov["tlc_runs"].append(dict(module=module, cfg=cfg, generated=r.generated, distinct=r.distinct,
                                         depth=r.diameter, wall_s=round(r.wall_s, 1), note=note or "exhaustive"))
        return r

    def mutant(self, module: str, cfg: str, expect: str, timeout=600, workers=4, env=None):
        """Negative config: the spec with a modelled code slip; TLC must find the named violation."""
        r = T.run_tlc(module, cfg, workdir=self.scratch, workers=workers, timeout=timeout, env=env)
        T.require_violation(r, expect, f"mutant {module}/{cfg}")
        self.cov["model_mutants_killed"] += 1
        return r

    def graph(self, module: str, cfg: str, **kw):
        kw.setdefault("workers", 4)
        r, states, inits, edges = T.dump_graph(module, cfg, workdir=self.scratch, **kw)
        self.cov["states"] += r.distinct
        self.cov["transitions"] += r.generated
        self.cov["tlc_runs"].append(dict(module=module, cfg=cfg, generated=r.generated, distinct=r.distinct,
                                         depth=r.diameter, wall_s=round(r.wall_s, 1), note="state graph dumped for replay"))
        return states, inits, edges

    def simulate(self, module: str, cfg: str, num: int, depth: int, seed=None, **kw):
        r, beh = T.simulate(module, cfg, workdir=self.scratch, num=num, depth=depth,
                            seed=self.seed if seed is None else seed, **kw)
        self.cov["tlc_runs"].append(dict(module=module, cfg=cfg, behaviours=len(beh), depth=depth,
                                         wall_s=round(r.wall_s, 1), note="simulate"))
        return beh

    def validate(self, module: str, cfg: str, records: list[dict], *, name="trace", timeout=900, env=None,
                 heap="8g", count_traces: int | None = None):
        """Write records as one JSON array and run the trace spec. Returns list of rejects
        (tid, clause, info). Every record must carry a unique 'tid'."""
        path = self.scratch / f"{name}.json"
        with open(path, "w") as f:
            json.dump(jsonable(records), f)
        r, rejects = T.validate_traces(module, cfg, path, workdir=self.scratch, nrec=len(records),
                                       timeout=timeout, env=env, heap=heap)
        self.cov["traces_validated_against_impl"] += (len(records) if count_traces is None else count_traces)
        self.cov["tlc_runs"].append(dict(module=module, cfg=cfg, records=len(records), rejects=len(rejects),
                                         generated=r.generated, wall_s=round(r.wall_s, 1), note="trace validation"))
        self.cov["states"] += r.distinct
        self.cov["transitions"] += r.generated
        if getattr(r, "advisories", 0):
            self.cov["advisories_mechanism_differs_from_model"] = self.cov.get("advisories_mechanism_differs_from_model", 0) + r.advisories
        return rejects

    def evaluate(self, module: str, cases: list, *, name="cases", timeout=900, heap="8g"):
        """Evaluator mode (spec -> code): TLC evaluates the spec's Expect(case) for every case and
        serialises the result; returns the list of expectations (same order)."""
        cpath = self.scratch / f"{name}_in.json"
        opath = self.scratch / f"{name}_out.json"
        with open(cpath, "w") as f:
            json.dump(jsonable(cases), f)
        r = T.run_tlc(module, f"{module}.cfg", workdir=self.scratch, workers=1, timeout=timeout, heap=heap,
                      env={"CASES_FILE": str(cpath), "OUT_FILE": str(opath)})
        if r.error or r.violated or not opath.exists():
            raise MachineryError(f"evaluator {module} failed: {r.error}\n{r.out[-2000:]}")
        out = json.loads(opath.read_text())
        if len(out) != len(cases):
            raise MachineryError(f"evaluator {module}: {len(out)} results for {len(cases)} cases")
        self.cov["tlc_runs"].append(dict(module=module, cases=len(cases), wall_s=round(r.wall_s, 1), note="evaluator (spec -> code)"))
        self.cov["spec_evaluations"] = self.cov.get("spec_evaluations", 0) + len(cases)
        return out

    # ------------------------------------------------------------------ bookkeeping
    def sample(self, s, cap=6):
        if len(self.cov["samples"]) < cap:
            self.cov["samples"].append(jsonable(s))

    def count(self, n=1, nontrivial_key=None):
        self.cov["evaluations"] += n
        if nontrivial_key is not None:
            self._nontrivial.add(nontrivial_key if isinstance(nontrivial_key, (str, int, tuple)) else
                                 json.dumps(jsonable(nontrivial_key), sort_keys=True))

    # ------------------------------------------------------------------ violations
    def violation(self, key: str, detail: dict):
        """Report one failing case. `key` identifies the failing input/history; if it is listed in
        known_findings.json the case is a KNOWN-FINDING, otherwise a VIOLATION with a replay file."""
        if self.only_key is not None and key != self.only_key:
            return False
        for f in self._known:
            if f["key"] == key:
                if key not in self.known_hit:
                    self.known_hit[key] = f["what"]
                    print(f"KNOWN-FINDING: property={self.pid} {f['what']} [key={key}]", flush=True)
                return False
        if any(v["key"] == key for v in self.violations):
            return True
        h = hashlib.sha1(key.encode()).hexdigest()[:10]
        REPLAYS.mkdir(exist_ok=True)
        path = REPLAYS / f"{self.pid}-{h}.json"
        if len(self.violations) < 25:       # replay files for the first 25 only; the rest are counted
            with open(path, "w") as f:
                json.dump(jsonable(dict(property=self.pid, key=key, tier=self.tier, seed=self.seed, detail=detail)), f, indent=1)
        self.violations.append(dict(key=key, replay=str(path)))
        if len(self.violations) <= 25:
            print(f"VIOLATION property={self.pid} replay={path}", flush=True)
            print(f"  key: {key}", flush=True)
        return True

    # ------------------------------------------------------------------ finish
    def finish(self) -> int:
        self.cov["distinct_nontrivial"] = len(self._nontrivial)
        wall = time.time() - self.t0
        cov = dict(self.cov)
        if not cov["samples"]:
            cov["samples"] = ["(no sample recorded)"]
        cov["known_findings_met"] = sorted(self.known_hit)
        ev = dict(property_id=self.pid, tier=self.tier, seed=int(self.seed), level=self.level,
                  coverage=jsonable(cov), assumptions=self.assumptions, wall_s=round(wall, 2),
                  violations=len(self.violations))
        evdir = EVID if self.pid.startswith("C") else ROOT / "evidence_growth"      # growth checks (G..) are not listed properties
        evdir.mkdir(exist_ok=True)
        if self.only_key is None:
            with open(evdir / f"{self.pid}.json", "w") as f:
                json.dump(ev, f, indent=1)
        shutil.rmtree(self.scratch, ignore_errors=True)
        if len(self.violations) > 25:
            print(f"... {len(self.violations) - 25} further violations of {self.pid} (not written out)")
        print(f"[{self.pid}/{self.tier}] states={cov['states']} transitions={cov['transitions']} "
              f"traces_vs_impl={cov['traces_validated_against_impl']} evaluations={cov['evaluations']} "
              f"known={len(self.known_hit)} violations={len(self.violations)} wall={wall:.1f}s", flush=True)
        return 1 if self.violations else 0
