"""Parser for TLA+ values as printed by TLC (state dumps, dot labels, simulate files, PrintT).

Returns python values:
  ints -> int, strings -> str, TRUE/FALSE -> bool, model values -> ModelValue(str)
  sets -> frozenset, tuples/sequences -> tuple, records -> dict (str keys),
  functions (a :> b @@ ...) -> FrozenDict (hashable dict), intervals a..b -> frozenset(range)
"""
from __future__ import annotations


class FrozenDict(dict):
    def __hash__(self):
        return hash(frozenset(self.items()))

    def _ro(self, *a, **k):
        raise TypeError("FrozenDict is read-only")
    __setitem__ = __delitem__ = _ro


class ModelValue(str):
    pass


class TLAParseError(Exception):
    pass


class _P:
    def __init__(self, s: str):
        self.s = s
        self.i = 0
        self.n = len(s)

    def ws(self):
        s, n = self.s, self.n
        while self.i < n and s[self.i] in " \t\r\n":
            self.i += 1

    def peek(self, k=1):
        return self.s[self.i:self.i + k]

    def expect(self, tok):
        self.ws()
        if not self.s.startswith(tok, self.i):
            raise TLAParseError(f"expected {tok!r} at {self.i}: {self.s[max(0,self.i-20):self.i+30]!r}")
        self.i += len(tok)

    def value(self):
        self.ws()
        s = self.s
        c = self.peek()
        if c == "{":
            self.i += 1
            items = self.seq_until("}")
            v = frozenset(items)
        elif s.startswith("<<", self.i):
            self.i += 2
            items = self.seq_until(">>")
            v = tuple(items)
        elif c == "[":
            self.i += 1
            v = self.record()
        elif c == "(":
            self.i += 1
            v = self.function()
        elif c == '"':
            v = self.string()
        elif c == "-" or c.isdigit():
            j = self.i + 1
            while j < self.n and s[j].isdigit():
                j += 1
            v = int(s[self.i:j])
            self.i = j
        else:
            j = self.i
            while j < self.n and (s[j].isalnum() or s[j] in "_!"):
                j += 1
            if j == self.i:
                raise TLAParseError(f"unexpected char at {self.i}: {s[self.i:self.i+30]!r}")
            w = s[self.i:j]
            self.i = j
            v = True if w == "TRUE" else False if w == "FALSE" else ModelValue(w)
        # interval a..b
        self.ws()
        if s.startswith("..", self.i) and isinstance(v, int) and not isinstance(v, bool):
            self.i += 2
            hi = self.value()
            v = frozenset(range(v, hi + 1))
        return v

    def seq_until(self, close):
        items = []
        self.ws()
        if self.s.startswith(close, self.i):
            self.i += len(close)
            return items
        while True:
            items.append(self.value())
            self.ws()
            if self.s.startswith(close, self.i):
                self.i += len(close)
                return items
            self.expect(",")

    def string(self):
        s = self.s
        assert s[self.i] == '"'
        j = self.i + 1
        out = []
        while j < self.n and s[j] != '"':
            if s[j] == "\\" and j + 1 < self.n:
                nxt = s[j + 1]
                out.append({"n": "\n", "t": "\t", '"': '"', "\\": "\\"}.get(nxt, nxt))
                j += 2
            else:
                out.append(s[j])
                j += 1
        self.i = j + 1
        return "".join(out)

    def record(self):
        d = {}
        self.ws()
        if self.peek() == "]":
            self.i += 1
            return FrozenDict(d)
        while True:
            self.ws()
            j = self.i
            while j < self.n and (self.s[j].isalnum() or self.s[j] == "_"):
                j += 1
            key = self.s[self.i:j]
            self.i = j
            self.expect("|->")
            d[key] = self.value()
            self.ws()
            if self.peek() == "]":
                self.i += 1
                return FrozenDict(d)
            self.expect(",")

    def function(self):
        d = {}
        while True:
            k = self.value()
            self.expect(":>")
            d[k] = self.value()
            self.ws()
            if self.peek() == ")":
                self.i += 1
                return FrozenDict(d)
            self.expect("@@")


def parse_value(text: str):
    p = _P(text)
    v = p.value()
    p.ws()
    if p.i != p.n:
        raise TLAParseError(f"trailing text at {p.i}: {text[p.i:p.i+40]!r}")
    return v


def parse_value_at(text: str, pos: int):
    """Parse one value starting at text[pos]; returns (value, end position)."""
    p = _P(text)
    p.i = pos
    v = p.value()
    return v, p.i


def parse_state(text: str) -> dict:
    """Parse a conjunction '/\\ x = v /\\ y = w' (newlines optional) into {var: value}."""
    p = _P(text)
    out = {}
    while True:
        p.ws()
        if p.i >= p.n:
            break
        if p.s.startswith("/\\", p.i):
            p.i += 2
        p.ws()
        j = p.i
        while j < p.n and (p.s[j].isalnum() or p.s[j] == "_"):
            j += 1
        name = p.s[p.i:j]
        if not name:
            raise TLAParseError(f"state parse: no var name at {p.i}: {p.s[p.i:p.i+40]!r}")
        p.i = j
        p.expect("=")
        out[name] = p.value()
    return out


def parse_call(text: str):
    """Parse an action label 'Name(arg1, arg2)' or 'Name' into (name, [args])."""
    text = text.strip()
    if "(" not in text:
        return text, []
    name, rest = text.split("(", 1)
    p = _P(rest)
    args = p.seq_until(")")
    return name.strip(), args


def to_tla(v) -> str:
    """Render a python value as a TLA+ expression (ints, bools, str, list/tuple -> seq, set -> set, dict -> record/function)."""
    if isinstance(v, bool):
        return "TRUE" if v else "FALSE"
    if isinstance(v, int):
        return str(v)
    if isinstance(v, str):
        return '"' + v.replace("\\", "\\\\").replace('"', '\\"') + '"'
    if isinstance(v, (list, tuple)):
        return "<<" + ", ".join(to_tla(x) for x in v) + ">>"
    if isinstance(v, (set, frozenset)):
        return "{" + ", ".join(sorted(to_tla(x) for x in v)) + "}"
    if isinstance(v, dict):
        if all(isinstance(k, str) for k in v):
            return "[" + ", ".join(f"{k} |-> {to_tla(x)}" for k, x in v.items()) + "]"
        return "(" + " @@ ".join(f"{to_tla(k)} :> {to_tla(x)}" for k, x in v.items()) + ")"
    raise TypeError(f"cannot render {type(v)}")
