"""Run TLC (exhaustive / simulate / trace / evaluator) and parse what it prints."""
from __future__ import annotations

import os
import re
import shutil
import subprocess
import time
from dataclasses import dataclass, field
from pathlib import Path

from .tlaparse import parse_state, parse_call, parse_value, parse_value_at

SPEC_DIR = Path(__file__).resolve().parent.parent / "spec"
JAR = "/opt/veriftools/tla/tla2tools.jar:/opt/veriftools/tla/CommunityModules-deps.jar"


class MachineryError(Exception):
    """Anything that is the fault of the checking machinery (exit 2), never a verdict."""


@dataclass
class TLCResult:
    ok: bool                       # no invariant/property violation, no error
    out: str
    generated: int = 0
    distinct: int = 0
    diameter: int = 0
    wall_s: float = 0.0
    violated: str | None = None    # name of violated invariant / property
    error: str | None = None       # TLC error text (overflow, parse, ...)
    coverage: dict = field(default_factory=dict)   # action name -> (distinct, total)
    prints: list = field(default_factory=list)     # raw PrintT lines (strings)
    postcondition_false: bool = False


_RE_STATS = re.compile(r"(\d+) states generated, (\d+) distinct states found")
_RE_DEPTH = re.compile(r"The depth of the complete state graph search is (\d+)")
_RE_INV = re.compile(r"Invariant (\S+) is violated")
_RE_PROP = re.compile(r"(?:Action|Temporal) property (\S+) (?:is|was) violated")
_RE_COV = re.compile(r"^<(\w+) line \d+, col \d+ to line \d+, col \d+ of module (\w+)>: (\d+):(\d+)", re.M)


def run_tlc(module: str, cfg: str | None = None, *, workdir: Path, workers: int | str = 16,
            extra: list[str] | None = None, env: dict | None = None, timeout: int = 600,
            deadlock: bool = False, coverage: bool = False, java_opts: str | None = None,
            heap: str = "8g") -> TLCResult:
    """Run TLC on spec/<module>.tla with spec/<cfg> from a scratch metadir. Never raises on a
    property violation (that is a result); raises MachineryError on timeout / crash."""
    workdir = Path(workdir)
    workdir.mkdir(parents=True, exist_ok=True)
    meta = workdir / f"meta_{module}_{int(time.time()*1000)%10**9}"
    cfgpath = Path(cfg) if (cfg and os.path.isabs(str(cfg))) else SPEC_DIR / (cfg or f"{module}.cfg")
    cmd = ["java", "-XX:+UseParallelGC", f"-Xmx{heap}", "-cp", JAR]
    if java_opts:
        cmd += java_opts.split()
    cmd += ["tlc2.TLC", "-workers", str(workers), "-metadir", str(meta), "-noGenerateSpecTE",
            "-config", str(cfgpath)]
    if not deadlock:
        cmd += ["-deadlock"]
    if coverage:
        cmd += ["-coverage", "1"]
    if extra:
        cmd += extra
    cmd += [str(SPEC_DIR / f"{module}.tla")]
    e = dict(os.environ)
    if env:
        e.update({k: str(v) for k, v in env.items()})
    t0 = time.time()
    try:
        p = subprocess.run(cmd, cwd=str(SPEC_DIR), env=e, capture_output=True, text=True, timeout=timeout)
    except subprocess.TimeoutExpired as ex:
        subprocess.run(["pkill", "-f", str(meta)], capture_output=True)
        shutil.rmtree(meta, ignore_errors=True)
        raise MachineryError(f"TLC timeout after {timeout}s on {module}/{cfgpath.name}") from ex
    wall = time.time() - t0
    shutil.rmtree(meta, ignore_errors=True)
    out = p.stdout + ("\n" + p.stderr if p.stderr.strip() else "")
    r = TLCResult(ok=False, out=out, wall_s=wall)
    m = None
    for m in _RE_STATS.finditer(out):
        pass
    if m:
        r.generated, r.distinct = int(m.group(1)), int(m.group(2))
    m = _RE_DEPTH.search(out)
    if m:
        r.diameter = int(m.group(1))
    m = _RE_INV.search(out) or _RE_PROP.search(out)
    if m:
        r.violated = m.group(1)
    if "Error:" in out and not r.violated:
        # keep the first error paragraph
        idx = out.index("Error:")
        r.error = out[idx:idx + 1500]
    if "Postcondition" in out and "violated" in out:
        r.postcondition_false = True
        r.error = None
    for m in _RE_COV.finditer(out):
        r.coverage[m.group(1)] = (int(m.group(3)), int(m.group(4)))
    r.prints = [ln for ln in out.splitlines() if ln.startswith('"') or ln.startswith("<<") or ln.startswith("[")]
    finished = "Model checking completed" in out or "Finished in" in out or "finished" in out.lower()
    r.ok = (p.returncode == 0) and not r.violated and not r.error and not r.postcondition_false and finished
    if p.returncode != 0 and not r.violated and not r.error and not r.postcondition_false:
        r.error = f"TLC exit {p.returncode}: {out[-1500:]}"
    return r


def require_ok(r: TLCResult, what: str):
    if not r.ok:
        raise MachineryError(f"{what}: TLC did not pass (violated={r.violated}, error={r.error})\n{r.out[-3000:]}")
    return r


def require_violation(r: TLCResult, name: str, what: str):
    """Used by negative (mutant) configs: the named invariant/property MUST be violated."""
    if r.violated != name:
        raise MachineryError(f"{what}: expected TLC to violate {name}, got violated={r.violated}, error={r.error}\n{r.out[-2000:]}")
    return r


# ---------------------------------------------------------------------------------------------
# state graph dumps (-dump dot,actionlabels)
# ---------------------------------------------------------------------------------------------

_RE_NODE = re.compile(r'^(-?\d+) \[label="((?:[^"\\]|\\.)*)"')
_RE_EDGE = re.compile(r'^(-?\d+) -> (-?\d+) \[label="((?:[^"\\]|\\.)*)"')


def _unescape_dot(s: str) -> str:
    return s.replace("\\n", "\n").replace('\\"', '"').replace("\\\\", "\\")


def dump_graph(module: str, cfg: str, *, workdir: Path, workers=16, timeout=900, env=None, heap="8g"):
    """Run TLC exhaustively with -dump dot,actionlabels and parse the graph.
    Returns (TLCResult, states: {id: dict}, init_ids: set, edges: list[(src, dst, name, args)])."""
    workdir = Path(workdir)
    workdir.mkdir(parents=True, exist_ok=True)
    dot = workdir / f"{module}_{os.path.basename(str(cfg)).replace('.cfg','')}.dot"
    r = run_tlc(module, cfg, workdir=workdir, workers=workers, timeout=timeout, env=env, heap=heap,
                extra=["-dump", "dot,actionlabels", str(dot)])
    require_ok(r, f"dump {module}/{cfg}")
    states, edges, inits = {}, [], set()
    with open(dot) as f:
        for line in f:
            line = line.rstrip("\n")
            m = _RE_EDGE.match(line)
            if m:
                name, args = parse_call(_unescape_dot(m.group(3)))
                edges.append((m.group(1), m.group(2), name, args))
                continue
            m = _RE_NODE.match(line)
            if m:
                states[m.group(1)] = parse_state(_unescape_dot(m.group(2)))
                if "style = filled" in line:
                    inits.add(m.group(1))
    dot.unlink(missing_ok=True)
    return r, states, inits, edges


# ---------------------------------------------------------------------------------------------
# simulate mode: one file per behaviour
# ---------------------------------------------------------------------------------------------

_RE_SIM_ACT = re.compile(r"^\\\* <(\w+)(\(.*\))? line \d+")
_RE_SIM_STATE = re.compile(r"^STATE_(\d+) ==")


def simulate(module: str, cfg: str, *, workdir: Path, num: int, depth: int, seed: int, timeout=600, env=None):
    """tlc -simulate file=...: returns list of behaviours, each a list of (action_name, args, state_dict)."""
    workdir = Path(workdir)
    simdir = workdir / f"sim_{module}_{seed}"
    shutil.rmtree(simdir, ignore_errors=True)
    simdir.mkdir(parents=True)
    r = run_tlc(module, cfg, workdir=workdir, workers=1, timeout=timeout, env=env,
                extra=["-simulate", f"file={simdir}/tr,num={num}", "-depth", str(depth), "-seed", str(seed)])
    if r.violated or r.error:
        raise MachineryError(f"simulate {module}/{cfg}: violated={r.violated} error={r.error}\n{r.out[-2000:]}")
    behaviours = []
    for fp in sorted(simdir.iterdir(), key=lambda p: [int(x) if x.isdigit() else x for x in re.split(r"(\d+)", p.name)]):
        steps, cur_act, buf = [], None, []
        def flush():
            if buf:
                steps.append((cur_act[0], cur_act[1], parse_state("\n".join(buf))))
        for line in fp.read_text().splitlines():
            m = _RE_SIM_ACT.match(line)
            if m:
                flush()
                buf = []
                nm, args = parse_call(m.group(1) + (m.group(2) or ""))
                cur_act = (nm, args)
                continue
            if _RE_SIM_STATE.match(line):
                continue
            if line.startswith("----") or line.startswith("====") or line.startswith("EXTENDS") or not line.strip():
                continue
            if cur_act is not None:
                buf.append(line)
        flush()
        if steps:
            behaviours.append(steps)
    shutil.rmtree(simdir, ignore_errors=True)
    return r, behaviours


# ---------------------------------------------------------------------------------------------
# trace validation: batch ndjson, reject-and-continue, verdict lines printed by the trace spec
# ---------------------------------------------------------------------------------------------

_RE_VERDICT = re.compile(r'^<<"(ACCEPT|REJECT)", (.*)>>$')


def validate_traces(module: str, cfg: str, trace_file: Path, *, workdir: Path, nrec: int, timeout=900,
                    env=None, heap="8g", extra_env=None):
    """Run a *_Trace spec over an ndjson/json trace file. The trace spec prints
       <<"REJECT", tid, clause, info>> for every rejected record and must end with postcondition
       (all records consumed). Returns (TLCResult, rejects:list[(tid, clause, info)])."""
    e = {"TRACE_FILE": str(trace_file)}
    if env:
        e.update(env)
    r = run_tlc(module, cfg, workdir=workdir, workers=1, timeout=timeout, env=e, heap=heap)
    if r.error or r.violated or r.postcondition_false or not r.ok:
        raise MachineryError(f"trace validation {module}/{cfg} failed to run to completion: "
                             f"violated={r.violated} post={r.postcondition_false} error={r.error}\n{r.out[-3000:]}")
    rejects = []
    # TLC pretty-prints long tuples over several lines: scan the whole output and bracket-match
    for m in re.finditer(r'<<\s*"REJECT"', r.out):
        vals, _ = parse_value_at(r.out, m.start())
        rejects.append(tuple(vals[1:]))
    r.advisories = len(re.findall(r'<<\s*"ADVISORY"', r.out))
    return r, rejects


def sany(module: str, timeout=120) -> tuple[bool, str]:
    p = subprocess.run(["java", "-cp", JAR, "tla2sany.SANY", str(SPEC_DIR / f"{module}.tla")],
                       cwd=str(SPEC_DIR), capture_output=True, text=True, timeout=timeout)
    ok = p.returncode == 0 and "Semantic errors" not in p.stdout and "***Parse Error***" not in p.stdout \
        and "Could not parse" not in p.stdout and "Fatal errors" not in p.stdout
    return ok, p.stdout[-3000:]
