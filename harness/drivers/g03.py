"""G03 (growth, DESIGN §5; workflow run_msm) — the MSM pipeline end to end as a trace of Molgri.tla:
BuildGrid -> GenPT (real Pseudotrajectory) -> Assign (must be 0..n-1) -> Simulate (a random walk over grid cells,
frames taken from the pseudotrajectory, so the true cell of every frame is known) -> Assign -> BuildMsm -> Decompose.
Validated by Molgri_Trace, which takes the pipeline model's action for every event."""
from __future__ import annotations

import random

import numpy as np

from ..core import Ctx, quiet
from .c10 import write_xyz
from .c11 import MOL2


def pipeline(tid, spec, molname, rng, d, events):
    import MDAnalysis as mda
    from MDAnalysis.coordinates.memory import MemoryReader
    from molgri.space.fullgrid import FullGrid
    from molgri.io import OneMoleculeReader
    from molgri.molecules.pts import Pseudotrajectory
    from molgri.molecules.transitions import AssignmentTool, MSM, DecompositionTool
    ev = lambda name, **kw: events.append(dict(tid=tid, ev=name, err="", **kw))
    b, o, t = spec
    el, coords = MOL2[molname]
    p1, p2 = str(d / "m1.xyz"), str(d / f"{molname}.xyz")
    write_xyz(p1, "N", [(0, 0, 0)])
    write_xyz(p2, el, coords)
    if tid > 0:
        ev("NewSpec")
    try:
        with quiet():
            fg = FullGrid(b, o, t)
            arr = np.asarray(fg.get_full_grid_as_array())
            adj = fg.get_full_adjacency().tocsr()
            m1 = OneMoleculeReader(p1).get_molecule()
            m2 = OneMoleculeReader(p2).get_molecule()
        ev("BuildGrid")
        with quiet():
            u = Pseudotrajectory(m1, m2, arr).get_pt_as_universe()
            frames = np.array([u.atoms.positions.copy() for _ in u.trajectory])
        ev("GenPT")
        n = len(arr)
        with quiet():
            got = np.asarray(AssignmentTool(arr, u, m2, include_outliers=False).get_full_assignments(), dtype=float)
        ev("Assign", got=[-1 if np.isnan(x) else int(round(x)) for x in got], truth=list(range(n)))
        # a random walk over adjacent cells
        cur, walk = rng.randrange(n), []
        for _ in range(6 * n):
            walk.append(cur)
            nb = adj.indices[adj.indptr[cur]:adj.indptr[cur + 1]]
            cur = int(rng.choice(list(nb))) if len(nb) and rng.random() < 0.7 else cur
        ev("Simulate")
        traj = mda.Universe(u._topology, frames[walk], format=MemoryReader)
        with quiet():
            got2 = np.asarray(AssignmentTool(arr, traj, m2, include_outliers=False).get_full_assignments(), dtype=float)
        ev("Assign", got=[-1 if np.isnan(x) else int(round(x)) for x in got2], truth=[int(w) for w in walk])
        with quiet():
            T = MSM(got2, n).get_one_tau_transition_matrix(1, noncorrelated_windows=False)
        D = T.toarray()
        rs = D.sum(axis=1)
        vis = rs > 0
        cnt = np.zeros((n, n))
        for a, c in zip(walk[:-1], walk[1:]):
            cnt[a, c] += 1
            cnt[c, a] += 1
        r = cnt.sum(axis=1)
        asym = np.max(np.abs(r[:, None] * D - (r[:, None] * D).T)) / max(1.0, r.max())
        ev("BuildMsm", rowsum9=int(np.ceil(np.max(np.abs(rs[vis] - 1)) * 1e9)), asym9=int(np.ceil(asym * 1e9)))
        sub = np.nonzero(vis)[0]
        if len(sub) >= 8:
            with quiet():
                lam, vec = DecompositionTool(T).get_decomposition(tol=1e-12, maxiter=100000, which="LR", sigma=None, k=3)
            ratio = vec[sub, 0] / r[sub]
            ev("DecomposeMsm", lam1_9=int(np.ceil(abs(lam[0] - 1) * 1e9)), spread6=int(np.ceil((ratio.max() - ratio.min()) / abs(ratio.mean()) * 1e6)))
    except Exception as ex:
        events.append(dict(tid=tid, ev="BuildGrid" if not events or events[-1]["tid"] != tid else "Decompose", err=type(ex).__name__,
                           lam=[], dense=[], imag=0, spread=0))


def run(ctx: Ctx):
    rng = random.Random(ctx.seed)
    ctx.cov["rule"] = "run_msm pipeline on small grids: pseudotrajectory -> assignment -> random walk over adjacent cells -> assignment -> MSM -> decomposition"
    ctx.model("Molgri", "Molgri_quick.cfg", workers=8, note="pipeline model incl. Simulate / Assign / BuildMsm")
    specs = [(("4", "5", "[0.2, 0.35]"), "generic4"), (("5", "7", "[0.2, 0.3]"), "five")]
    if ctx.tier == "thorough":
        specs += [(("8", "12", "[0.2, 0.3]"), "planar4"), (("randomQ_6", "cube3D_9", "[0.25, 0.4, 0.5]"), "generic4")]
    d = ctx.scratch / "msm"
    d.mkdir()
    events = []
    for tid, (spec, mol) in enumerate(specs):
        pipeline(tid, spec, mol, rng, d, events)
        ctx.count(1, nontrivial_key=spec)
    cfg = ctx.cfg("mt.cfg", f"SPECIFICATION TraceSpec\nCONSTANTS\n  Specs = {{{', '.join(str(i) for i in range(len(specs)))}}}\n  Bug = \"none\"\n"
                            "INVARIANT OneCellOrder\nINVARIANT MemoryIsCurrent\nPOSTCONDITION AllConsumed\n")
    rejects = ctx.validate("Molgri_Trace", cfg, events, name="msm_pipeline", count_traces=len(specs))
    for tid, clause, k in rejects:
        ctx.violation(f"run_msm pipeline grid={specs[tid][0]} molecule={specs[tid][1]}: {clause}", dict(clause=clause, event={kk: (v if not isinstance(v, list) else v[:20]) for kk, v in events[k - 1].items()}))
    ctx.sample([{k: (v if not isinstance(v, list) else v[:10]) for k, v in e.items()} for e in events[:8]])
