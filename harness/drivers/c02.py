"""C02 — full-grid matrices are the symmetric product of position and rotation geometry.

Model: spec/Product.tla (operational block assembly of FullGrid._get_N_N vs the declarative product).
C->S on real grids: position-grid, rotation-grid and full matrices logged as value classes, full
matrices in stored order; Product_Trace checks symmetry, one pattern and order, positivity, the
composition rule per entry (factor on one family, the same for borders and distances) and the
volume rule in cell order."""
from __future__ import annotations

import random

import numpy as np

from ..core import Ctx, quiet
from ..project import ValueClasses


def cfg_text(bug="none", invs=("OperationalIsDeclarative", "Symmetric", "EmptyDiagonal", "PatternIsProductOfPatterns")):
    return (f"SPECIFICATION Spec\nCONSTANTS\n  MaxP = 3\n  MaxB = 3\n  Vals = {{1, 2}}\n  Bug = \"{bug}\"\n"
            + "".join(f"INVARIANT {i}\n" for i in invs))


def dense_ids(M, vc, n):
    out = [[0] * n for _ in range(n)]
    M = M.tocoo()
    for i, j, v in zip(M.row, M.col, M.data):
        if v != 0 or True:
            out[int(i)][int(j)] = int(vc.ids(float(v))) + 1
    return out


def record(b, o, t, cart, f, partial_first=False, with_pref=False):
    from molgri.space.fullgrid import FullGrid
    rec = dict(b=b, o=o, t=t, cartesian=cart, f=f, nP=0, nB=0, err="", posA=[], posB=[], posD=[], rotA=[], rotB=[], rotD=[],
               fullA=[], fullB=[], fullD=[], mulF=[], mulF2=[], vol=[], volTable=[], positive=True)
    try:
        with quiet():
            fg = FullGrid(b, o, t, factor=f, position_grid_cartesian=cart)
            if partial_first:        # the partial matrices of workflow run_grid asked BEFORE the full ones
                fg.get_full_adjacency(only_position=True)
                fg.get_full_adjacency(only_orientation=True)
                fg.get_full_distances(only_orientation=True)
                fg.get_full_distances(only_position=True)
            pg = fg.get_position_grid()
            nB = fg.get_b_N()
            nP = len(pg)
            pA = pg.get_adjacency_of_position_grid().tocoo().copy()       # every answer is snapshotted when the call returns
            pB = pg.get_borders_of_position_grid().tocoo().copy()
            pD = pg.get_distances_of_position_grid().tocoo().copy()
            pV = np.asarray(pg.get_all_position_volumes(), dtype=float)
            rV = np.asarray(fg.b_rotations.get_spherical_voronoi().get_voronoi_volumes(), dtype=float)
            if nB > 1:
                rA = fg.b_rotations.get_voronoi_adjacency().tocoo().copy()
                rB = fg.b_rotations.get_cell_borders().tocoo().copy()
                rD = fg.b_rotations.get_center_distances().tocoo().copy()
            else:
                from scipy.sparse import coo_array
                rA = rB = rD = coo_array((1, 1))
            FA = fg.get_full_adjacency().tocoo().copy()
            FB = fg.get_full_borders().tocoo().copy()
            FD = fg.get_full_distances().tocoo().copy()
            if not partial_first:     # asked again after the other matrix: the later answer is the one that is checked
                FB = fg.get_full_borders().tocoo().copy()
            V = np.asarray(fg.get_total_volumes(), dtype=float)
            V = np.asarray(fg.get_total_volumes(), dtype=float)        # asked twice: the second answer is the one that is checked
            parts = None
            if nP > 1:       # the same getters with their documented options, asked of the same object AFTER the full matrices
                parts = dict(partPosA=fg.get_full_adjacency(only_position=True).tocoo().copy(), partRotA=fg.get_full_adjacency(only_orientation=True).tocoo().copy(),
                             partPosD=fg.get_full_distances(only_position=True).tocoo().copy(), partRotD=fg.get_full_distances(only_orientation=True).tocoo().copy())
    except Exception as ex:
        rec["err"] = type(ex).__name__
        return rec
    PF = None
    if with_pref:          # growth G06 (not part of C02): FullGrid.get_full_prefactors and what the grid answers afterwards
        rec.update(pref=[], prefT=[], prefPure=True, prefErr="")
        try:
            with quiet():
                PF = fg.get_full_prefactors().tocoo()
                FB2, FD2 = fg.get_full_borders().tocoo(), fg.get_full_distances().tocoo()
                V2 = np.asarray(fg.get_total_volumes(), dtype=float)
            rec["prefPure"] = bool(np.array_equal(FB2.data, FB.data) and np.array_equal(FB2.row, FB.row) and np.array_equal(FB2.col, FB.col)
                                   and np.array_equal(FD2.data, FD.data) and np.array_equal(V2, V))
        except Exception as ex:
            rec["prefErr"] = type(ex).__name__
            PF = None
    rec["nP"], rec["nB"] = nP, nB
    vc = ValueClasses(rel=1e-9, abs_=1e-13)
    src = [pB.data, pD.data, rB.data, rD.data]
    allsrc = np.concatenate([np.asarray(x, dtype=float) for x in src]) if any(len(x) for x in src) else np.zeros(0)
    table = np.outer(pV, rV) * f ** 3
    vc.add(allsrc, allsrc * f, allsrc * f * f, FB.data, FD.data, V, table, [1.0])
    if parts is not None:
        vc.add(np.asarray(parts["partPosD"].data, dtype=float), np.asarray(parts["partRotD"].data, dtype=float))
    quot = None
    if PF is not None and len(FB.data) == len(FD.data) and len(V) > int(FB.row.max(initial=-1)):
        with np.errstate(all="ignore"):
            quot = FB.data / FD.data / V[FB.row]
        vc.add(PF.data, quot)
    one = lambda M, n: [[(1 if v else 0) for v in row] for row in (M.toarray() != 0)]
    rec["posA"], rec["rotA"] = one(pA, nP), one(rA, nB)
    rec["posB"], rec["posD"] = dense_ids(pB, vc, nP), dense_ids(pD, vc, nP)
    rec["rotB"], rec["rotD"] = dense_ids(rB, vc, nB), dense_ids(rD, vc, nB)
    # entries whose stored value is zero count as "no entry" for the position / rotation matrices
    for name, M in (("posB", pB), ("posD", pD), ("rotB", rB), ("rotD", rD)):
        for i, j, v in zip(M.row, M.col, M.data):
            if v == 0:
                rec[name][int(i)][int(j)] = 0
    rec["fullA"] = [[int(i), int(j), 1] for i, j, v in zip(FA.row, FA.col, FA.data) if v]
    rec["fullB"] = [[int(i), int(j), int(vc.ids(float(v))) + 1] for i, j, v in zip(FB.row, FB.col, FB.data)]
    rec["fullD"] = [[int(i), int(j), int(vc.ids(float(v))) + 1] for i, j, v in zip(FD.row, FD.col, FD.data)]
    if parts is not None:
        for name, M in parts.items():
            if name.endswith("A"):
                rec[name] = [[int(i), int(j), 1] for i, j, v in zip(M.row, M.col, M.data) if v]
            else:
                rec[name] = [[int(i), int(j), int(vc.ids(float(v))) + 1] for i, j, v in zip(M.row, M.col, M.data)]
    uniq = np.unique(allsrc)
    rec["mulF"] = [[int(vc.ids(v)) + 1, int(vc.ids(v * f)) + 1] for v in uniq]
    rec["mulF2"] = [[int(vc.ids(v)) + 1, int(vc.ids(v * f * f)) + 1] for v in uniq]
    rec["vol"] = [int(x) + 1 for x in vc.ids(V)]
    rec["volTable"] = [[int(x) + 1 for x in row] for row in vc.ids(table)]
    if PF is not None:
        rec["pref"] = [[int(i), int(j), int(vc.ids(float(v))) + 1] for i, j, v in zip(PF.row, PF.col, PF.data)]
        if quot is not None:
            rec["prefT"] = sorted({(int(vc.ids(float(bv))) + 1, int(vc.ids(float(dv))) + 1, int(vc.ids(float(V[r]))) + 1, int(vc.ids(float(q))) + 1)
                                   for bv, dv, r, q in zip(FB.data, FD.data, FB.row, quot)})
            rec["prefT"] = [list(x) for x in rec["prefT"]]
    rec["positive"] = bool(np.all(np.isfinite(FB.data)) and np.all(FB.data > 0) and np.all(np.isfinite(FD.data)) and np.all(FD.data > 0)
                           and np.all(np.isfinite(V)) and np.all(V > 0))
    return rec


def plan(thorough, rng):
    grids = [("1", "4", "[0.2, 0.35]", False, 2), ("4", "5", "[0.2, 0.3, 0.45]", False, 2), ("8", "7", "[0.15, 0.3]", False, 1),
             ("randomQ_5", "randomS_12", "[0.2, 0.3]", False, 0.5), ("cube4D_9", "cube3D_9", "[0.2, 0.3, 0.5, 0.6]", False, 2),
             ("8", "12", "[0.2, 0.3, 0.45]", False, 2), ("5", "12", "[0.2, 0.3]", False, 2), ("5", "12", "[0.2, 0.3]", True, 2),
             ("5", "12", "[0.2, 0.3]", False, 1),        # the same grid in both position modes and with two factors, one process ("4", "ico_20", "[0.25, 0.4]", True, 1),
             ("1", "1", "[0.2, 0.3]", False, 2), ("randomQ_8", "ico_7", "linspace(0.2, 0.4, 3)", False, 3),
             ("randomQ_44", "4", "[0.2, 0.3]", False, 2)]       # a rotation grid with very small (< 1e-5) faces between cells
    if thorough:
        grids.append(("4", "4", "[0.2, 0.3]", True, 2))        # open Euclidean cells: listed known finding
    if thorough:
        for _ in range(40):
            nb = rng.choice([1, 4, 5, 8, 9, 12])
            no = rng.choice([1, 4, 5, 7, 12, 13, 20])
            ba = rng.choice(["", "cube4D_", "randomQ_"])
            oa = rng.choice(["", "ico_", "cube3D_", "randomS_"])
            nt = rng.choice([2, 3, 4])
            radii = sorted(rng.sample([0.15, 0.2, 0.25, 0.3, 0.4, 0.45, 0.6, 0.8], nt))
            # Cartesian mode needs CLOSED Euclidean cells: with 4 directions (any algorithm) or sparse random directions most
            # cells stay open and get volume / border 0 (the known-finding family F11, tracked by the listed cases below)
            cart = rng.random() < 0.3 and no >= 5 and oa != "randomS_"
            grids.append((f"{ba}{nb}", f"{oa}{no}", str(radii), cart, rng.choice([1, 2, 0.5, 3])))
    return grids


def run(ctx: Ctx):
    thorough = ctx.tier == "thorough"
    rng = random.Random(ctx.seed)
    ctx.cov["rule"] = ("real FullGrids over direction algorithms x rotation algorithms, n_o >= 1, n_b = 1 or >= 4, 2-4 unequal radii, "
                       "both position modes, factors 0.5/1/2/3; every stored entry of the three full matrices and every volume; "
                       "non-trivial = distinct grid")
    ctx.assumptions += ["value classes at relative 1e-9; which family carries the factor is left to the implementation, but it must "
                        "be the same family for borders and distances"]
    ctx.model("Product", ctx.cfg("prod.cfg", cfg_text()), workers=16, note="all pairs of weighted graphs on nP, nB <= 3")
    ctx.mutant("Product", ctx.cfg("prod_m.cfg", cfg_text("strideNP", ["OperationalIsDeclarative"])), "OperationalIsDeclarative")
    recs = []
    for k, (b, o, t, cart, f) in enumerate(plan(thorough, rng)):
        recs.append(record(b, o, t, cart, f, partial_first=bool(k % 2)))
        ctx.count(1, nontrivial_key=(b, o, t, cart, f))
    for i, r in enumerate(recs):
        r["tid"] = i
    # the trace spec carries the family that holds the factor as STATE across records: every chunk starts with the
    # same deciding grid (n_b >= 4 and f # 1), so that all grids are held to one family
    chunk = 12
    for c0 in range(0, len(recs), chunk):
        part = recs[c0:c0 + chunk]
        lead = dict(recs[1])
        lead["tid"] = recs[1]["tid"]
        if c0 > 0:
            part = [lead] + part
        rejects = ctx.validate("Product_Trace", "Product_Trace.cfg", part, name=f"product_{c0}", timeout=2400)
        for tid, clause, _ in rejects:
            r = recs[tid]
            ctx.violation(f"FullGrid(b='{r['b']}', o='{r['o']}', t='{r['t']}', cartesian={r['cartesian']}, factor={r['f']}): {clause}",
                          dict(grid=[r["b"], r["o"], r["t"], r["cartesian"], r["f"]], clause=clause, err=r["err"]))
    r = recs[1]
    ctx.sample(dict(grid=[r["b"], r["o"], r["t"], r["f"]], nP=r["nP"], nB=r["nB"], fullB_head=r["fullB"][:4], vol_head=r["vol"][:4]))
