"""G07 (growth) — "key = value" parameter files as workflow/snakemake_utils.py edits and reads them (modify_mdrun,
read_from_mdrun, find_config_parameter_value).  Model: spec/KVFile.tla (operational prefix-matching model; the map-like
contract for prefix-free key sets; a negative configuration shows what prefix collisions break).  C->S: random histories
on real files, every call logged with the file's projection, replayed by KVFile_Trace from the state the previous call left."""
from __future__ import annotations

import random

from ..core import Ctx, quiet

TOK = {1: "nst", 2: "dt", 3: "tau_"}          # a prefix code: key sequences are prefix-related iff their spellings are


def spell(key):
    return "".join(TOK[c] for c in key)


def unspell(text):
    key = []
    while text:
        for c, t in TOK.items():
            if text.startswith(t):
                key.append(c)
                text = text[len(t):]
                break
        else:
            raise ValueError("not a key: " + text)
    return key


def render(rng, key, val, cmt):
    eq = rng.choice([" = ", "=", "   =  ", " =", "= "])
    tail = rng.choice([" ; a comment", ";c", "  ; nst = 9"]) if cmt else ""
    return f"{spell(key)}{eq}{val}{tail}\n"


def project(path):
    out = []
    for line in open(path).read().split("\n"):
        if line == "":
            continue
        body = line.strip()
        if body.startswith(";") or body == "":
            out.append(dict(key=[], val=0, cmt=True))
            continue
        name = body.split("=")[0].strip()
        rest = body.split("=", 1)[1]
        out.append(dict(key=unspell(name), val=int(rest.split(";")[0].strip()), cmt=";" in rest))
    return out


def run(ctx: Ctx):
    from workflow import snakemake_utils as SU
    rng = random.Random(ctx.seed)
    ctx.cov["rule"] = ("random histories (8 calls) on real files with 0..4 initial lines in varied spellings (with / without comments, "
                       "comment-only lines, duplicate and prefix-related keys); non-trivial = a logged call")
    ctx.model("KVFile", "KVFile.cfg", workers=4, note="prefix-free key sets: read-your-write, read = map lookup, modify touches one key, lines keep their places")
    ctx.mutant("KVFile", "KVFile_neg.cfg", "ReadIsMapLookup")
    keys = [[1], [1, 2], [2], [2, 1], [3], [1, 3], [3, 3]]
    d = ctx.scratch / "kv"
    d.mkdir()
    recs = []
    nhist = 400 if ctx.tier == "thorough" else 120
    for tid in range(nhist):
        path = str(d / f"f{tid}.mdp")
        with open(path, "w") as f:
            for _ in range(rng.randint(0, 4)):
                if rng.random() < 0.15:
                    f.write("; only a comment\n")
                else:
                    f.write(render(rng, rng.choice(keys), rng.randint(1, 9), rng.random() < 0.4))
        base = dict(tid=tid, p=[], v=0, out=0, outcmt=False, err="")
        recs.append(dict(base, op="init", lines=project(path)))
        for _ in range(8):
            op = rng.choice(["modify", "modify", "read", "find"])
            p = rng.choice(keys)
            r = dict(base, op=op, p=p, lines=[])
            try:
                with quiet():
                    if op == "modify":
                        r["v"] = rng.randint(1, 9)
                        SU.modify_mdrun(path, spell(p), r["v"])
                    elif op == "read":
                        got = SU.read_from_mdrun(path, spell(p))
                        r["out"] = 0 if got is None else int(got)
                    else:
                        got = SU.find_config_parameter_value(path, spell(p))
                        r["out"] = 0 if got is None else int(got.split(";")[0].strip())
                        r["outcmt"] = bool(got is not None and ";" in got)
                r["lines"] = project(path)
            except Exception as ex:
                r["err"] = type(ex).__name__
            recs.append(r)
            ctx.count(1, nontrivial_key=(tid, len(recs)))
    rejects = ctx.validate("KVFile_Trace", "KVFile_Trace.cfg", recs, name="kv", count_traces=nhist)
    for tid, clause, k in rejects:
        r = recs[k - 1]
        ctx.violation(f"parameter file history {tid}, call {r['op']}({spell(r['p'])!r}{', ' + str(r['v']) if r['op'] == 'modify' else ''}): {clause}",
                      dict(call=r, clause=clause))
    ctx.sample(recs[:4])
    import shutil
    shutil.rmtree(d, ignore_errors=True)
