"""C14 — saved grid geometry gives a rate matrix stationary at Boltzmann x volume.

Models: spec/Sqra.tla (symmetric conductance => V_i base^(-2k_i) is stationary and in detailed balance;
an asymmetric entry breaks it) and spec/Molgri.tla (the pipeline over the artefact store).
C->S end to end with the package's own classes: GridWriter -> files -> GridReader -> SQRA ->
DecompositionTool; the event trace is validated by Molgri_Trace, which re-uses the pipeline model's
actions for every event."""
from __future__ import annotations

import math
import random

import numpy as np
from scipy import sparse
from scipy.constants import k as kB, N_A
from scipy.sparse.csgraph import connected_components

from ..core import Ctx, quiet
from ..project import ValueClasses, digest
from .c01 import cfg_text as sqra_cfg
from .c20 import content, Interner

ARTS = dict(array="full_array.npy", volumes="volumes.npy", adjacency="adjacency_array.npz",
            borders="borders_array.npz", distances="distances_array.npz")


def pipeline(tid, spec, gd, rng, events):
    from molgri.io import GridWriter, GridReader
    from molgri.molecules.transitions import SQRA, DecompositionTool
    b, o, t, cart, f = spec
    it = Interner()
    ev = lambda name, **kw: events.append(dict(tid=tid, ev=name, err="", **kw))
    if tid > 0:
        ev("NewSpec")
    try:
        with quiet():
            w = GridWriter(b, o, t, factor=f, position_grid_cartesian=cart)
        ev("BuildGrid")
    except Exception as ex:
        events.append(dict(tid=tid, ev="BuildGrid", err=type(ex).__name__))
        return
    paths = {k: str(gd / v) for k, v in ARTS.items()}
    savers = dict(array=w.save_full_grid, volumes=w.save_volumes, adjacency=w.save_adjacency_array,
                  borders=w.save_borders_array, distances=w.save_distances_array)
    getters = dict(array=w.fg.get_full_grid_as_array, volumes=w.fg.get_total_volumes, adjacency=w.fg.get_full_adjacency,
                   borders=w.fg.get_full_borders, distances=w.fg.get_full_distances)
    # workflow run_grid also asks the grid object for the position-only / orientation-only matrices; here on odd grids BEFORE
    # anything is written, on even grids between the full adjacency and the rest (the workflow's order)
    def inspect():
        try:
            with quiet():
                w.fg.get_full_adjacency(only_position=True)
                w.fg.get_full_adjacency(only_orientation=True)
                w.fg.get_full_distances(only_orientation=True)
                w.fg.get_full_distances(only_position=True)
            ev("Inspect")
        except Exception as ex:
            events.append(dict(tid=tid, ev="Inspect", err=type(ex).__name__))
    if tid % 2:
        inspect()
    for art in ARTS:
        if art == "borders" and tid % 2 == 0:
            inspect()
        try:
            with quiet():
                obj = getters[art]()
                savers[art](paths[art])
            d, shp, od = content(obj if sparse.issparse(obj) else np.asarray(obj), it)
            ev("Write", art=art, digest=int(d) * 1000 + int(od))
        except Exception as ex:
            events.append(dict(tid=tid, ev="Write", art=art, digest=-1, err=type(ex).__name__))
            return
    ev("NewProcess")          # the rate matrix is built by another job (rule run_sqra): it knows only what it reads
    rd = GridReader()
    loaders = dict(array=rd.load_full_grid, volumes=rd.load_volumes, adjacency=rd.load_adjacency_array,
                   borders=rd.load_borders_array, distances=rd.load_distances_array)
    got = {}
    for art in rng.sample(list(ARTS), len(ARTS)):
        try:
            with quiet():
                got[art] = loaders[art](paths[art])
            d, shp, od = content(got[art], it)
            ev("Read", art=art, digest=int(d) * 1000 + int(od))
        except Exception as ex:
            events.append(dict(tid=tid, ev="Read", art=art, digest=-1, err=type(ex).__name__))
            return
    ev("GenPT")
    V = np.asarray(got["volumes"], dtype=float)
    n = len(V)
    # the geometry as it was read, taken BEFORE the package's code sees it
    A = got["adjacency"].tocoo().copy()
    Sm0, hm0 = got["borders"].tocsr().copy(), got["distances"].tocsr().copy()
    ratio = lambda a, b: (a / b) if b != 0 else float("nan")
    shv = [(int(i), int(j), ratio(float(Sm0[i, j]), float(hm0[i, j]))) for i, j, v in zip(A.row, A.col, A.data) if v]
    ncomp, _ = connected_components(A.tocsr(), directed=False)
    # two models from the SAME loaded matrices (as in a temperature / energy scan): both must be right
    for pass_no in (0, 1):
        T = rng.choice([200.0, 273.0, 300.0, 400.0])
        # first model: gentle landscape; second: steep steps between neighbours (walls / plateaus, still far below the 500 kJ/mol cap)
        kk = np.array([rng.randint(0, 6) if pass_no == 0 else rng.choice([0, 1, 2, 17, 30, 40]) for _ in range(n)])
        # the second model has energies with a large common offset (absolute force-field / QM energies): only differences matter
        offset = 0.0 if pass_no == 0 else rng.choice([-25000.0, -6000.0, 4000.0, 30000.0])
        E = kk * (2 * kB * N_A * T * math.log(2) / 1000.0) + offset
        ev("ComputeEnergy")
        D = rng.choice([0.5, 1.0, 2.0])
        rate = dict(tid=tid, ev="BuildRate", err="", n=n, adj=[], cond=[], sh=[], rowsum9=0, connected=bool(ncomp == 1))
        try:
            with quiet():
                Q = SQRA(E, V, got["distances"], got["borders"]).get_rate_matrix(D, T)
            Qc = Q.tocoo()
            vc = ValueClasses(rel=1e-9, abs_=1e-300)
            off = [(int(i), int(j), float(v)) for i, j, v in zip(Qc.row, Qc.col, Qc.data) if i != j and v != 0]
            cond = [(i, j, v * V[i] * 2.0 ** (int(kk[j]) - int(kk[i])) / D) for i, j, v in off]
            vc.add([c[2] for c in cond], [c[2] for c in shv])
            rate["adj"] = [[int(i), int(j)] for i, j, v in zip(A.row, A.col, A.data) if v]
            rate["cond"] = [[i, j, int(vc.ids(v))] for i, j, v in cond]
            rate["sh"] = [[i, j, int(vc.ids(v))] for i, j, v in shv]
            rs = np.abs(np.asarray(Q.sum(axis=1)).ravel()) / np.maximum(np.abs(Q.diagonal()), 1e-300)
            rate["rowsum9"] = int(np.ceil(rs.max() * 1e9))
        except Exception as ex:
            rate["err"] = type(ex).__name__
            events.append(rate)
            return
        events.append(rate)
        if pass_no == 0:
            Q_gentle, kk_gentle = Q, kk
    # the spectral clauses are checked on the gentle landscape: with steps of 2^40 between neighbours ARPACK (tol 1e-12) does not
    # converge at all (ArpackNoConvergence) - a property of the solver on such ill-conditioned matrices, not of the pipeline
    Q, kk = Q_gentle, kk_gentle
    # Decomposition only for n >= 48: on tiny matrices (k = 6 eigenvalues requested from a 21 x 21 matrix, where ARPACK's
    # Krylov space is nearly the full space) scipy's eigs was observed to MISS the zero eigenvalue depending on ARPACK's
    # internal random start vector (not reproducible, history dependent) - see DESIGN 11.6
    # For n <= 20 ARPACK's Krylov space IS the full space (ncv = min(n, max(2k+1, 20)) = n): 1500 runs on random reversible
    # rate matrices of 8..20 cells with varied global generator state returned the dense spectrum and the stationary vector every
    # time, so such tiny grids are decomposed too (largest-real-part setting only); 21..47 cells stay excluded.
    if not rate["connected"] or 20 < n < 48:
        return
    tiny = n <= 20
    dense_all = np.linalg.eigvals(Q.toarray().T)
    rho = float(np.max(np.abs(dense_all)))
    top = np.sort(dense_all.real)[::-1]
    inside = float((top[1] + top[2]) / 2)            # a shift INSIDE the spectrum that is no eigenvalue
    settings = [(None, "LR")] if tiny else [(None, "LR"), (0.05 * float(np.abs(Q.diagonal()).max()), "LM")]
    # the shift must be well away from the eigenvalues, and the set of the six eigenvalues nearest to it must be unambiguous
    order_by_dist = np.argsort(np.abs(dense_all.real - inside))
    dist = np.abs(dense_all.real - inside)[order_by_dist]
    nearest_are_top = bool(np.allclose(np.sort(dense_all.real[order_by_dist[:6]])[::-1], top[:6], rtol=0, atol=1e-9 * rho))
    # only when the six eigenvalues nearest to the shift ARE the six largest (so that "the largest is zero" is meaningful)
    if abs(top[1] - top[2]) > 1e-4 * rho and len(dist) > 6 and (dist[6] - dist[5]) > 1e-3 * max(dist[6], 1e-300) and nearest_are_top and not tiny:
        settings.append((inside, "LM"))
    for sigma, which in settings:
        dec = dict(tid=tid, ev="Decompose", err="", lam=[], dense=[], imag=0, spread=0, k=6, sigma=0 if sigma is None else 1)
        try:
            with quiet():
                lam, vec = DecompositionTool(Q).get_decomposition(tol=1e-12, maxiter=100000, which=which, sigma=sigma, k=6)
            if sigma is None:
                dr = top[:len(lam)]
            else:        # shift-invert returns the eigenvalues nearest to the shift
                near = dense_all.real[np.argsort(np.abs(dense_all.real - sigma))[:len(lam)]]
                dr = np.sort(near)[::-1]
            dec["lam"] = [int(round(x / rho * 1e6)) for x in lam]
            dec["dense"] = [int(round(x / rho * 1e6)) for x in dr]
            dec["imag"] = int(np.ceil(np.max(np.abs(dense_all.imag)) / rho * 1e6))
            pi = V * 2.0 ** (-2.0 * kk)
            lead = int(np.argmax(lam))                   # the eigenvector belonging to the largest returned eigenvalue
            ratio = vec[:, lead] / pi
            dec["spread"] = int(np.ceil((ratio.max() - ratio.min()) / abs(ratio.mean()) * 1e6)) if abs(dr[0]) <= 1e-6 * rho else 0
        except Exception as ex:
            dec["err"] = type(ex).__name__
        events.append(dec)


def run(ctx: Ctx):
    thorough = ctx.tier == "thorough"
    rng = random.Random(ctx.seed)
    ctx.cov["rule"] = ("connected grids over direction x rotation algorithms, n_b in {1,4,5,8}, n_o in {4,7,12}, n_t in {2,3}, both position "
                       "modes, f in {1,2}; random lattice energies (differences below the cap), T in {200,273,300,400}; one pipeline "
                       "trace per grid; non-trivial = distinct grid")
    ctx.assumptions += ["ARPACK agreement with the dense solver is a solver-tolerance band (1e-6 of the spectral radius, tol=1e-12)",
                        "energies on the lattice k*2RT ln2 so that the conductance Q_ij V_i 2^(k_j-k_i)/D is recovered exactly"]
    invs = ["OperationalIsDeclarative", "RowSumZero", "DetailedBalance", "StationaryIsBoltzmannVolume"]
    ctx.model("Sqra", ctx.cfg("sq3.cfg", sqra_cfg(3, invs=invs)), workers=16, note="n=3: symmetric S/h => Boltzmann x volume stationary")
    ctx.mutant("Sqra", ctx.cfg("sq_as.cfg", sqra_cfg(3, "asymmetricS", ["StationaryIsBoltzmannVolume"])), "StationaryIsBoltzmannVolume")
    ctx.model("Molgri", "Molgri.cfg" if thorough else "Molgri_quick.cfg", workers=12, timeout=1800,
              note="pipeline (both workflows) over the artefact store, two grid specifications" + ("" if thorough else ", two persisted artefacts"))
    ctx.mutant("Molgri", ctx.cfg("mg_m.cfg", open(str(ctx.scratch.parent.parent / "spec" / "Molgri_quick.cfg")).read().replace('"none"', '"energyOrderByRotation"')), "OneCellOrder")
    specs = [("4", "4", "[0.2, 0.35]", False, 2), ("8", "7", "[0.2, 0.3, 0.45]", False, 2), ("1", "12", "[0.2, 0.3]", False, 2),
             ("randomQ_5", "randomS_7", "[0.2, 0.3]", False, 1), ("cube4D_8", "cube3D_9", "[0.15, 0.3]", False, 2),
             ("5", "12", "[0.2, 0.3]", True, 2), ("8", "12", "[0.2, 0.3, 0.45]", False, 2), ("4", "ico_20", "[0.25, 0.4]", True, 1),
             ("1", "ico_6", "[0.2, 0.3]", False, 2), ("zero", "10", "[0.2, 0.35]", False, 1)]      # 12 and 20 cells: the solver's Krylov space is the full space
    if thorough:
        for _ in range(30):
            nb = rng.choice([1, 4, 5, 8, 9])
            no = rng.choice([4, 5, 7, 12, 13, 20])
            ba = rng.choice(["", "cube4D_", "randomQ_"])
            oa = rng.choice(["", "ico_", "cube3D_", "randomS_"])
            radii = sorted(rng.sample([0.15, 0.2, 0.25, 0.3, 0.4, 0.45, 0.6], rng.choice([2, 3])))
            cart = rng.random() < 0.3 and oa != "randomS_"
            specs.append((f"{ba}{nb}", f"{oa}{no}", str(radii), cart, rng.choice([1, 2])))
    events = []
    d = ctx.scratch / "pipe"
    d.mkdir()
    for tid, spec in enumerate(specs):
        gd = d / f"g{tid}"
        gd.mkdir()
        pipeline(tid, spec, gd, rng, events)
        ctx.count(1, nontrivial_key=spec)
    cfg = ctx.cfg("mt.cfg", f"SPECIFICATION TraceSpec\nCONSTANTS\n  Specs = {{{', '.join(str(i) for i in range(len(specs)))}}}\n  Bug = \"none\"\n"
                            "INVARIANT OneCellOrder\nINVARIANT DirectoriesArePure\nINVARIANT MemoryIsCurrent\nINVARIANT ReadIsWriteAndRateConsistent\n"
                            "POSTCONDITION AllConsumed\n")
    rejects = ctx.validate("Molgri_Trace", cfg, events, name="pipeline", count_traces=len(specs), timeout=1800)
    for tid, clause, k in rejects:
        b, o, t, cart, f = specs[tid]
        ctx.violation(f"pipeline FullGrid(b='{b}', o='{o}', t='{t}', cartesian={cart}, factor={f}): {clause}",
                      dict(grid=specs[tid], clause=clause, event={kk: v for kk, v in events[k - 1].items() if kk not in ("adj", "cond", "sh")}))
    ctx.sample(dict(grid=specs[1], events=[{k: v for k, v in e.items() if k not in ("adj", "cond", "sh")} for e in events if e["tid"] == 1][:16]))
    import shutil
    shutil.rmtree(d, ignore_errors=True)
