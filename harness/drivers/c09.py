"""C09 — full-grid row order is position-major, rotation-minor and is recoverable.

Model: spec/FullIndex.tla (tile/repeat/nested-loop model vs div/mod, helpers on index sequences,
decomposition = order-preserving de-duplication).  Conformance C->S on real FullGrids."""
from __future__ import annotations

import random

import numpy as np

from ..core import Ctx, quiet, MachineryError
from ..project import fixed


def cfg_text(bug="none", invs=("RowOrder", "Bijection", "HelpersAreDivMod", "DecomposeIsIdentity"), mx=4):
    return (f"SPECIFICATION Spec\nCONSTANTS\n  MaxT = {mx}\n  MaxO = {mx}\n  MaxB = {mx}\n  MaxIdx = 8\n  Bug = \"{bug}\"\n"
            + "".join(f"INVARIANT {i}\n" for i in invs))


def match_rows(rows, ref, tol):
    """id of the reference row each row coincides with (-1 if none / ambiguous)"""
    out = []
    for r in rows:
        d = np.max(np.abs(ref - r), axis=1)
        ok = np.nonzero(d < tol)[0]
        out.append(int(ok[0]) if len(ok) == 1 else -1)
    return out


def record(b, o, radii_nm, cart, rng):
    from molgri.space.fullgrid import FullGrid, from_full_array_to_o_b_t
    rec = dict(b=b, o=o, t=str(radii_nm), cartesian=cart, nT=len(radii_nm), nO=0, nB=0, rows=[], width=0, norms6=[],
               input7=[int(round(x * 1e7)) for x in sorted(radii_nm)], helpers=[], dec=dict(o=[], b=[], t6=[]), err="", helpersOnly=False)
    try:
        with quiet():
            fg = FullGrid(b, o, str(list(radii_nm)), position_grid_cartesian=cart)
            first = fg.get_full_grid_as_array()
            # a caller converts the array it was handed to nm and reverses the rows in place (the pinned tree hands out a
            # fresh array per call - the docstring even says nm - so this is the caller's own copy), then asks again
            if isinstance(first, np.ndarray) and first.ndim == 2 and first.flags.writeable and len(radii_nm) % 2 == 0:
                first[:, :3] /= 10
                first[:] = first[::-1].copy()
            fg.get_position_grid().get_position_grid_as_array()
            arr = np.asarray(fg.get_full_grid_as_array())          # asked repeatedly: the last answer is the one that is checked
            ogrid = np.asarray(fg.get_position_grid().get_o_grid().get_grid_as_array())
            bgrid = np.asarray(fg.b_rotations.get_grid_as_array(only_upper=True))
        rec["nO"], rec["nB"] = len(ogrid), len(bgrid)
        rec["width"] = int(arr.shape[1]) if arr.ndim == 2 else -1
        norms = np.linalg.norm(arr[:, :3], axis=1)
        shells = np.unique(np.round(norms, 7))
        rec["norms6"] = [fixed(x) for x in shells]
        t_ids = [int(np.argmin(np.abs(shells - x))) for x in norms]
        o_ids = match_rows(arr[:, :3] / norms[:, None], ogrid, 1e-9)
        b_ids = match_rows(arr[:, 3:], bgrid, 1e-12)
        rec["rows"] = [dict(o=a, t=c, b=d) for a, c, d in zip(o_ids, t_ids, b_ids)]
        n = len(arr)
        subsets = [None] + [[i] for i in rng.sample(range(n), min(n, 6))] + \
                  [[rng.randrange(n) for _ in range(rng.randint(0, 9))] for _ in range(6)] + [list(range(n - 1, -1, -1))]
        for ix in subsets:
            with quiet():
                q = fg.get_quaternion_index(None if ix is None else np.array(ix, dtype=int))
                p = fg.get_position_index(None if ix is None else np.array(ix, dtype=int))
            rec["helpers"].append(dict(idx=[-1] if ix is None else [int(i) for i in ix], q=[int(v) for v in q], p=[int(v) for v in p]))
        with quiet():
            od, bd, td = from_full_array_to_o_b_t(arr)
        rec["dec"] = dict(o=match_rows(np.asarray(od), ogrid, 1e-7), b=match_rows(np.asarray(bd), bgrid, 1e-7),
                          t6=[fixed(x) for x in np.asarray(td)])
    except Exception as ex:
        rec["err"] = type(ex).__name__
    return rec


def big_record(b, o, t, rng):
    """a grid with more than 2^15 position cells and more than 2^16 rows: the index helpers on chosen indices only"""
    from molgri.space.fullgrid import FullGrid
    rec = dict(b=b, o=o, t=t, cartesian=False, nT=0, nO=0, nB=0, rows=[], width=7, norms6=[], input7=[], helpers=[], dec=dict(o=[], b=[], t6=[]),
               err="", helpersOnly=True)
    try:
        with quiet():
            fg = FullGrid(b, o, t)
            rec["nB"], rec["nO"], rec["nT"] = int(fg.get_b_N()), int(fg.o_rotations.get_N()), int(fg.t_grid.get_N_trans())
            n = rec["nB"] * rec["nO"] * rec["nT"]
            special = [0, 1, 32767, 32768, 65535, 65536, 65537, n - 1]
            for ix in ([i for i in special if 0 <= i < n], [rng.randrange(n) for _ in range(12)]):
                q = fg.get_quaternion_index(np.array(ix, dtype=int))
                p = fg.get_position_index(np.array(ix, dtype=int))
                rec["helpers"].append(dict(idx=[int(i) for i in ix], q=[int(v) for v in q], p=[int(v) for v in p]))
    except Exception as ex:
        rec["err"] = type(ex).__name__
    return rec


def run(ctx: Ctx):
    thorough = ctx.tier == "thorough"
    rng = random.Random(ctx.seed)
    ctx.cov["rule"] = ("real FullGrids over algorithm combinations x n_b x n_o x n_t; every array row matched to the ids of its "
                       "generating direction, radius and rotation; index helpers on None, single indices, random sequences "
                       "with repeats and the reversed range; non-trivial = distinct grid")
    ctx.model("FullIndex", ctx.cfg("fi.cfg", cfg_text()), workers=8, note="nT,nO,nB <= 4; index sequences over 0..7")
    for bug, inv in (("rotationMajor", "RowOrder"), ("strideNO", "HelpersAreDivMod"), ("directionMajor", "RowOrder")):
        ctx.mutant("FullIndex", ctx.cfg(f"fi_{bug}.cfg", cfg_text(bug, [inv], 3)), inv)
    combos = [("", ""), ("randomQ_", "randomS_"), ("cube4D_", "cube3D_"), ("randomQ_", "ico_"), ("cube4D_", "randomS_")]
    nbs, nos = [1, 2, 5, 8], [1, 3, 7, 12]
    radii_sets = [[0.3], [0.2, 0.35], [0.45, 0.1, 0.25, 0.3]]
    plan = []
    for ci, (ba, oa) in enumerate(combos if thorough else combos[:3]):
        for nb in nbs:
            for no in nos:
                for ri, radii in enumerate(radii_sets):
                    if not thorough and (nb * 7 + no * 3 + ri + ci) % 4:
                        continue
                    plan.append((f"{ba}{nb}", f"{oa}{no}", radii, False))
    plan += [("8", "12", [0.2, 0.3], True), ("5", "7", [0.15, 0.3, 0.5], True)]
    # sizes that coincide / mirror each other (n_b = n_o*n_t; (2,10) and (10,2)), and a pure-rotation grid with one position
    plan += [("6", "3", [0.2, 0.3], False), ("2", "5", [0.2, 0.3], False), ("10", "2", [0.3], False), ("8", "1", [0.3], False),
             ("cube4D_5", "1", [0.3], False)]
    # radii with many decimals on a direction grid with generic coordinates (the decomposition de-duplicates at 8 decimals)
    plan += [("2", "ico_42", [float(x) for x in np.linspace(0.2, 1.5, 10)], False)]
    recs = []
    for b, o, radii, cart in plan:
        recs.append(record(b, o, radii, cart, rng))
        ctx.count(1, nontrivial_key=(b, o, str(radii), cart))
    recs.append(big_record("cube4D_2", "ico_350", "linspace(0.5, 2, 100)", rng))
    ctx.count(1, nontrivial_key="big")
    for i, r in enumerate(recs):
        r["tid"] = i
    rejects = ctx.validate("FullIndex_Trace", "FullIndex_Trace.cfg", recs, name="fullindex")
    for tid, clause, _ in rejects:
        r = recs[tid]
        ctx.violation(f"FullGrid(b='{r['b']}', o='{r['o']}', t='{r['t']}', cartesian={r['cartesian']}): {clause}",
                      dict(grid={k: r[k] for k in ("b", "o", "t", "cartesian", "nT", "nO", "nB")}, clause=clause,
                           rows_head=r["rows"][:12], helpers=r["helpers"][:3], dec=r["dec"], err=r["err"]))
    r = recs[len(recs) // 2]
    ctx.sample(dict(grid=[r["b"], r["o"], r["t"]], rows_head=r["rows"][:6], helper=r["helpers"][1], dec=r["dec"]))
