"""C15 — rotation-cell volumes approximate a partition of rotation space.

Spec: the `Volumes` event of spec/GridLife_Trace.tla (equal share for N < 4; for N >= 4: N positive
values that are the first N of the 2N double-cover volumes, sum within 12 % of pi^2, each within 30 % of
the true measure of the nearest-rotation region, widened by 4 standard errors of the estimate).
The true measures come from an independent Monte-Carlo nearest-rotation count (harness-owned Generator).
The role of TLA+ here is small (band arithmetic and the structural clauses); see DESIGN §7."""
from __future__ import annotations

import math

import numpy as np

from ..core import Ctx, quiet
from ..gridlife import create, DIM
from .c08 import cfg_text as gl_cfg


def mc_measures(G, nsamples, seed):
    """fraction of uniformly random rotations nearest to each grid rotation (argmax |<x, q_i>|)"""
    rng = np.random.default_rng(seed)
    counts = np.zeros(len(G))
    done = 0
    while done < nsamples:
        m = min(100000, nsamples - done)
        X = rng.normal(size=(m, 4))
        X /= np.linalg.norm(X, axis=1)[:, None]
        idx = np.argmax(np.abs(X @ G.T), axis=1)
        counts += np.bincount(idx, minlength=len(G))
        done += m
    frac = counts / nsamples
    sigma = np.sqrt(np.maximum(frac * (1 - frac), 1e-12) / nsamples)
    return frac, sigma


def vol_event(alg, N, nsamples, seed, via_fullgrid=False):
    e = dict(ev="Volumes", alg=alg, n=int(N), len=0, positive=True, share9=[], firstN=True, sumPm=0, ratioPm=[], sigmaPm=[], err="")
    total = math.pi ** 2 if DIM[alg] == 4 else 4 * math.pi
    try:
        with quiet():
            if via_fullgrid:
                # the rotation grid as the full grid owns it, read AFTER the full grid has computed its 6D volumes twice and a
                # caller has normalised a returned array in place: the reported volumes must not depend on that history
                from molgri.space.fullgrid import FullGrid
                fg = FullGrid(f"{alg}_{N}", "4", "[0.2, 0.3]")
                fg.get_total_volumes()
                w = fg.b_rotations.get_spherical_voronoi().get_voronoi_volumes()
                w /= w.sum()
                fg.get_total_volumes()
                g = fg.b_rotations
            else:
                g = create(alg, N)
                if N >= 4 and N % 3 == 1 and DIM[alg] == 4:
                    # a caller looks at the plain (vertex-only) hulls of the diagram first - the documented flag of the getter
                    sv = g.get_spherical_voronoi()
                    getattr(sv, "full_voronoi", sv).get_convex_hulls(including_additional=False)
            vol = np.asarray(g.get_spherical_voronoi().get_voronoi_volumes(), dtype=float)
            G = np.asarray(g.get_grid_as_array(only_upper=True) if DIM[alg] == 4 else g.get_grid_as_array(), dtype=float)
            if DIM[alg] == 4 and N >= 4:
                full = np.asarray(g.get_spherical_voronoi().full_voronoi.get_voronoi_volumes(), dtype=float)
            else:
                full = None
    except Exception as ex:
        e["err"] = type(ex).__name__
        return e
    e["len"] = int(len(vol))
    e["positive"] = bool(np.all(np.isfinite(vol)) and np.all(vol > 0))
    if N < 4:
        e["share9"] = [int(round(v / (total / N) * 1e9)) for v in vol]
        return e
    e["firstN"] = bool(full is not None and len(full) == 2 * N and np.array_equal(full[:N], vol))
    e["sumPm"] = int(round(vol.sum() / total * 1000))
    frac, sig = mc_measures(G, nsamples, seed)
    meas = np.maximum(frac, 1e-9) * total
    e["ratioPm"] = [int(round(v / m * 1000)) for v, m in zip(vol, meas)]
    e["sigmaPm"] = [int(math.ceil(r * s / max(f, 1e-9))) for r, s, f in zip(e["ratioPm"], sig, frac)]
    return e


def run(ctx: Ctx):
    thorough = ctx.tier == "thorough"
    ctx.cov["rule"] = ("cube4D and randomQ, every N from 1 to 24 (quick) / 60 + samples to 272 (thorough), plus direction grids with "
                       "N < 4; every cell against a Monte-Carlo nearest-rotation count; non-trivial = distinct (algorithm, N)")
    ctx.cov["trusted_base"] = ["Monte-Carlo nearest-rotation measure with a harness-owned numpy Generator (never the global generator); "
                               "its per-cell standard error is handed to the spec, which widens the band by 4 sigma"]
    ctx.assumptions += ["the 30 % / 12 % bands of the statement; a cell is only reported when it is outside the band beyond 4 standard errors"]
    ctx.model("GridLife", ctx.cfg("gl.cfg", gl_cfg("SmallSpecs", ["array", "volumes"], 2)), workers=12,
              note="life cycle of Get(obj, volumes): pure, history independent")
    nsamples = 2000000 if thorough else 300000
    plan = [(alg, N) for alg in ("cube4D", "randomQ") for N in (range(1, 61) if thorough else range(1, 25))]
    plan += [("ico", 2), ("randomS", 3), ("cube3D", 1)]
    history = [("cube4D", 8), ("randomQ", 10), ("cube4D", 3)]
    if thorough:
        plan += [("cube4D", 80), ("cube4D", 150), ("cube4D", 272), ("randomQ", 100), ("randomQ", 200), ("fulldiv", 40)]
    events = []
    for alg, N in plan:
        events.append(vol_event(alg, N, nsamples, ctx.seed + N))
        ctx.count(1, nontrivial_key=(alg, N))
    for alg, N in history:
        e = vol_event(alg, N, nsamples, ctx.seed + N, via_fullgrid=True)
        e["history"] = "after FullGrid.get_total_volumes() x2 and an in-place normalisation of a returned array"
        events.append(e)
    for i, e in enumerate(events):
        e["tid"] = i
    rejects = ctx.validate("GridLife_Trace", "GridLife_Trace.cfg", events, name="volumes", timeout=1800)
    for tid, clause, _ in rejects:
        e = events[tid]
        ctx.violation(f"rotation grid {e['alg']}_{e['n']}{' (' + e['history'] + ')' if 'history' in e else ''}: {clause}", dict(event=e, clause=clause))
    ctx.sample(events[10])
    ctx.cov["ratio_range_permille"] = [min(min(e["ratioPm"]) for e in events if e["ratioPm"]), max(max(e["ratioPm"]) for e in events if e["ratioPm"])]
    ctx.cov["sum_range_permille"] = [min(e["sumPm"] for e in events if e["ratioPm"]), max(e["sumPm"] for e in events if e["ratioPm"])]
