"""C04 — rotation-grid neighbour relations are correct on SO(3) = S^3 modulo sign.

Model: spec/Fold.tla (operational in-place antipode sweep vs the declarative fold, all antipodally
closed relations for N <= 3; the index-0 truthiness slip and 'no fold' as negative configs).
C->S: cube4D and randomQ for every N in 4..bound; the full-sphere relation, face areas and angles come
from the brute-force S^3 oracle; Fold_Trace performs the fold and compares every pair."""
from __future__ import annotations

import math

import numpy as np

from ..core import Ctx, quiet, MachineryError
from ..oracles.sphere import s3_geometry
from ..project import ValueClasses


def fold_cfg(n, bug="none", selftouch="FALSE", invs=("OperationalIsDeclarative", "Symmetric", "EmptyDiagonal")):
    return (f"SPECIFICATION Spec\nCONSTANTS\n  N = {n}\n  Weights = {{1, 2}}\n  Bug = \"{bug}\"\n  AllowSelfTouch = {selftouch}\n"
            + "".join(f"INVARIANT {i}\n" for i in invs))


def record(alg, N, oracle=True):
    from molgri.space.rotobj import SphereGridFactory
    rec = dict(alg=alg, n=N, antiOK=True, geo=[], adj=[], borders=[], dists=[], err="", oracle=oracle, dchk=[], positive=True)
    try:
        with quiet():
            g = SphereGridFactory.create(alg, N, 4)
            P = np.asarray(g.get_grid_as_array(only_upper=False))
    except Exception as ex:
        rec["err"] = "create:" + type(ex).__name__
        return rec
    rec["antiOK"] = bool(P.shape == (2 * N, 4) and np.array_equal(P[N:], -P[:N]))
    mats = {}
    for name, getter in (("adj", "get_voronoi_adjacency"), ("dists", "get_center_distances"), ("borders", "get_cell_borders")):
        try:
            with quiet():
                mats[name] = getattr(g, getter)().tocoo()
        except Exception as ex:
            rec["err"] = f"{getter}:{type(ex).__name__}"
            return rec
    if not oracle:
        return structure_only(rec, P, mats, N)
    # the intermediate states of the fold (Fold.tla: M, the swept matrix, the cut), which the same getter exposes through its
    # documented options; asked of the same object after the default forms
    for name, kw in (("fullAdj", dict(only_upper=False, include_opposing_neighbours=False)), ("sweptAdj", dict(only_upper=False, include_opposing_neighbours=True)),
                     ("halfAdj", dict(only_upper=True, include_opposing_neighbours=False))):
        try:
            with quiet():
                m = g.get_voronoi_adjacency(**kw).tocoo()
            rec[name] = [[int(i), int(j)] for i, j, v in zip(m.row, m.col, m.data) if v]
            rec[name + "Shape"] = [int(x) for x in m.shape]
        except Exception as ex:
            rec["err"] = f"get_voronoi_adjacency({name}):{type(ex).__name__}"
            return rec
    geo = s3_geometry(P)
    dist_vc = ValueClasses(rel=1e-9, abs_=1e-11)
    area_vc = ValueClasses(rel=0.0, abs_=1e-8)           # cosine-law angle sums vs Van Oosterom-Strackee: agree to ~1e-10
    items = []
    for (i, j), (ns, rank, area, theta) in sorted(geo["pairs"].items()):
        items.append((i, j, rank, area, min(theta, math.pi - theta)))
    dist_vc.add([x[4] for x in items], mats["dists"].data)
    area_vc.add([x[3] for x in items], mats["borders"].data)
    rec["geo"] = [[i, j, int(rank), int(area_vc.ids(area)), int(dist_vc.ids(d)), int(min(area, 100.0) * 1e6)]
                  for i, j, rank, area, d in items]
    m = mats["adj"]
    rec["adj"] = [[int(i), int(j)] for i, j, v in zip(m.row, m.col, m.data) if v]
    m = mats["borders"]
    rec["borders"] = [[int(i), int(j), int(area_vc.ids(v))] for i, j, v in zip(m.row, m.col, m.data)]
    m = mats["dists"]
    rec["dists"] = [[int(i), int(j), int(dist_vc.ids(v))] for i, j, v in zip(m.row, m.col, m.data)]
    rec["shape_ok"] = bool(mats["adj"].shape == (N, N))
    return rec


def structure_only(rec, P, mats, N):
    """grids beyond the brute-force bound: patterns, symmetry, positivity and the folded angle of every stored distance"""
    vc = ValueClasses(rel=1e-9, abs_=1e-11)
    d = mats["dists"]
    ang = []
    for i, j in zip(d.row, d.col):
        c = abs(float(np.clip(np.dot(P[int(i)], P[int(j)]), -1, 1))) if max(i, j) < len(P) else 0.0
        ang.append(math.acos(c))
    vc.add(d.data, ang)
    rec["dchk"] = [[int(i), int(j), int(vc.ids(v)), int(vc.ids(a))] for i, j, v, a in zip(d.row, d.col, d.data, ang)]
    for name in ("adj", "borders", "dists"):
        m = mats[name]
        rec[name] = [[int(i), int(j)] for i, j, v in zip(m.row, m.col, m.data) if v] if name == "adj" else \
                    [[int(i), int(j), 0] for i, j, v in zip(m.row, m.col, m.data)]
    rec["positive"] = bool(np.all(mats["borders"].data > 0) and np.all(mats["dists"].data > 0)
                           and np.all(np.isfinite(mats["borders"].data)) and np.all(np.isfinite(mats["dists"].data)))
    rec["shape_ok"] = bool(mats["adj"].shape == (N, N))
    return rec


def run(ctx: Ctx):
    thorough = ctx.tier == "thorough"
    ctx.cov["rule"] = ("cube4D and randomQ, every N from 4 to the bound; every pair of rotations incl. all pairs with index 0 and "
                       "pairs adjacent only through the antipodal copy, against the brute-force S^3 Voronoi complex of the 2N "
                       "points folded by the spec; non-trivial = distinct (algorithm, N)")
    ctx.cov["trusted_base"] = ["harness/oracles/sphere.py (all 4-subsets of the 2N quaternions; face = shared vertices of rank >= 3; "
                               "face area by Van Oosterom-Strackee) - agrees with the code's FULL-sphere relation on every grid "
                               "tried; the fold itself is decided by the spec"]
    ctx.assumptions += ["face areas compared at absolute 1e-8; "
                        "pairs whose face area is below 1e-5 are unconstrained"]
    ctx.model("Fold", ctx.cfg("fold3.cfg", fold_cfg(3)), workers=8, note="N=3: all antipodally closed weighted relations without self-touch")
    ctx.model("Fold", ctx.cfg("fold2.cfg", fold_cfg(2)), workers=2, note="N=2")
    ctx.mutant("Fold", ctx.cfg("fold_m1.cfg", fold_cfg(3, "zeroIndexFalsy", invs=["Symmetric"])), "Symmetric")
    ctx.mutant("Fold", ctx.cfg("fold_m2.cfg", fold_cfg(3, "rowsOnly", invs=["OperationalIsDeclarative"])), "OperationalIsDeclarative")
    ctx.mutant("Fold", ctx.cfg("fold_m3.cfg", fold_cfg(2, "none", "TRUE", invs=["EmptyDiagonal"])), "EmptyDiagonal")
    bound = {"cube4D": 40, "randomQ": 40} if thorough else {"cube4D": 22, "randomQ": 22}
    recs = []
    for alg, b in bound.items():
        for N in range(4, b + 1):
            recs.append(record(alg, N))
            ctx.count(1, nontrivial_key=(alg, N))
    if thorough:
        for alg, N in (("cube4D", 48), ("randomQ", 50), ("cube4D", 60)):
            recs.append(record(alg, N))
            ctx.count(1, nontrivial_key=(alg, N))
    # beyond the brute-force bound: structure, positivity and folded angles only (every getter must still answer)
    big = [("randomQ", 60), ("randomQ", 84)]
    if thorough:
        big += [(a, n) for a in ("randomQ", "cube4D") for n in range(44, 124, 8)] + [("randomQ", 101), ("randomQ", 150), ("cube4D", 150)]
    for alg, N in big:
        recs.append(record(alg, N, oracle=False))
        ctx.count(1, nontrivial_key=(alg, N))
    for i, r in enumerate(recs):
        r["tid"] = i
    chunk = 20
    for c0 in range(0, len(recs), chunk):
        rejects = ctx.validate("Fold_Trace", "Fold_Trace.cfg", recs[c0:c0 + chunk], name=f"fold_{c0}", timeout=1800)
        for tid, clause, _ in rejects:
            r = recs[tid]
            if clause.startswith("ORACLE"):
                raise MachineryError(f"oracle self-check failed for {r['alg']}_{r['n']}")
            ctx.violation(f"rotation grid {r['alg']}_{r['n']}: {clause}", dict(alg=r["alg"], N=r["n"], clause=clause, err=r["err"]))
    r = recs[5]
    ctx.sample(dict(alg=r["alg"], N=r["n"], oracle_pairs=len(r["geo"]), adj_entries=len(r["adj"]), geo_head=r["geo"][:3]))
    ctx.cov["exhaustive"] = True
