"""C18 — polytope subdivision produces exactly the lattice points of the solid's surface.

Model: spec/Polytope.tla (operational Split/AddExtras vs the declarative lattice of PolyOps.tla).
Conformance C->S: the history of a real polytope object (create, get_nodes, divide_edges, ...) is
logged with exact lattice coordinates and validated by Polytope_Trace, which takes the model's own
Divide action for every logged division."""
from __future__ import annotations

import hashlib

import numpy as np

from ..core import Ctx, quiet, MachineryError
from ..project import lattice_coords, PHI

KINDS = {"cube3D": "Cube3DPolytope", "ico": "IcosahedronPolytope", "cube4D": "Cube4DPolytope"}

INVS = ["NodesAreLattice", "NodeCountOK", "EdgesAreUnitEdges", "EdgeCountOK", "ClosedUnderNegation", "NoOrigin", "HalfSelection"]


def cfg_text(kind, maxlevel, bug="none", invs=INVS, props=("OldNodesKept",)):
    return (f"SPECIFICATION Spec\nCONSTANTS\n  Kind = \"{kind}\"\n  MaxLevel = {maxlevel}\n  Bug = \"{bug}\"\n"
            + "".join(f"INVARIANT {i}\n" for i in invs) + "".join(f"PROPERTY {p}\n" for p in props))


class Interner:
    def __init__(self):
        self.ids = {}

    def __call__(self, row: np.ndarray) -> int:
        h = hashlib.sha256(np.ascontiguousarray(row).tobytes()).digest()
        return self.ids.setdefault(h, len(self.ids))


def snapshot(p, kind, k, ev):
    try:
        return _snapshot(p, kind, k, ev)
    except MachineryError:
        raise
    except Exception as ex:       # the code under test failed: that is an observation, not a harness problem
        return dict(ev=ev, lvl=k, nodes=[], levels=[], ci=[], edges=[], projres=0, negclosed=True, half=[],
                    err=f"{type(ex).__name__}")


def _snapshot(p, kind, k, ev):
    """project the real polytope's state after `ev` to exact lattice coordinates"""
    with quiet():
        raw = np.array(p.get_nodes(projection=False))
        proj = np.array(p.get_nodes(projection=True))
    coords = lattice_coords(raw, kind, k)              # list of points, each a list of [a, b]
    index = {tuple(r): i for i, r in enumerate(map(tuple, raw))}
    G = p.G
    levels = [int(G.nodes[tuple(r)]["level"]) for r in raw]
    ci = [int(G.nodes[tuple(r)]["central_index"]) for r in raw]
    edges = [[index[tuple(a)], index[tuple(b)]] for a, b in G.edges()]
    unit = raw / np.linalg.norm(raw, axis=1)[:, None]
    projres = int(np.ceil(np.max(np.abs(unit - proj)) / 1e-15))
    pset = {tuple(np.round(r, 9)) for r in proj}
    negclosed = all(tuple(np.round(-r, 9) + 0.0) in pset for r in proj)
    rec = dict(ev=ev, lvl=k, nodes=coords, levels=levels, ci=ci, edges=edges, projres=projres, negclosed=bool(negclosed), half=[], err="")
    if kind == "cube4D":
        with quiet():
            half = np.array(p.get_half_of_hypercube(projection=False))
        rec["half"] = [index[tuple(r)] for r in map(tuple, half)]
    return rec


def gets(p, kind, intern_raw, intern_proj, Ns, tag):
    out = []
    for N in Ns:
        for projection in (False, True):
            rec = dict(ev="get", n=int(N), proj=projection, rows=[], err="", when=tag)
            try:
                with quiet():
                    arr = np.array(p.get_nodes(N=N, projection=projection))
                it = intern_proj if projection else intern_raw
                rec["rows"] = [it(r) for r in arr]
            except Exception as ex:
                rec["err"] = type(ex).__name__
            out.append(rec)
    return out


def history(kind, maxlevel):
    import molgri.space.polytopes as P
    with quiet():
        p = getattr(P, KINDS[kind])()
    ir, ip = Interner(), Interner()
    recs = [snapshot(p, kind, 0, "create")]
    for k in range(1, maxlevel + 1):
        n = p.G.number_of_nodes()
        Ns = sorted({1, 2, n // 2, n - 1, n})
        recs += gets(p, kind, ir, ip, Ns, f"before divide {k} (cache cold)")
        recs += gets(p, kind, ir, ip, [n], f"before divide {k} (cache warm)")
        try:
            with quiet():
                p.divide_edges()
            recs.append(snapshot(p, kind, k, "divide"))
        except Exception as ex:
            recs.append(dict(ev="divide", lvl=k, nodes=[], levels=[], ci=[], edges=[], projres=0, negclosed=True, half=[],
                             err=type(ex).__name__))
            break
        n2 = p.G.number_of_nodes()
        recs += gets(p, kind, ir, ip, sorted(set(Ns + [n + 1, n2])), f"after divide {k}")
    return recs


def short_histories(kind, maxdiv, alphabet, length, rng, limit):
    """Every subdivision history matters (C18 quantifies over histories): sequences over
       D  divide_edges() without looking at the object afterwards
       g  get_nodes(N = small)      G  get_nodes()           (both projection flags)
       h  get_half_of_hypercube(N = small)   H  get_half_of_hypercube()   (hypercube only)
    each on a FRESH object, ending with a full snapshot."""
    import itertools
    import molgri.space.polytopes as P
    seqs = [s for L in range(1, length + 1) for s in itertools.product(alphabet, repeat=L) if s.count("D") <= maxdiv and s.count("D") >= 1]
    if len(seqs) > limit:
        seqs = rng.sample(seqs, limit)
    ir, ip = Interner(), Interner()
    recs = []
    for seq in seqs:
        with quiet():
            p = getattr(P, KINDS[kind])()
        recs.append(snapshot(p, kind, 0, "create"))
        recs[-1]["history"] = "".join(seq)
        k = 0
        for a in seq:
            if a == "D":
                k += 1
                e = dict(ev="divide_blind", err="", history="".join(seq))
                try:
                    with quiet():
                        p.divide_edges()
                except Exception as ex:
                    e["err"] = type(ex).__name__
                recs.append(e)
                if e["err"]:
                    break
            elif a in "gG":
                n = p.G.number_of_nodes()
                for r in gets(p, kind, ir, ip, [3 if a == "g" else n], f"history {''.join(seq)}"):
                    recs.append(r)
            else:
                for projection in (False, True):
                    e = dict(ev="half", n=(3 if a == "h" else -1), proj=projection, rows=[], err="", history="".join(seq))
                    try:
                        with quiet():
                            arr = np.array(p.get_half_of_hypercube(N=(3 if a == "h" else None), projection=projection))
                        it = ip if projection else ir
                        e["rows"] = [it(r) for r in arr]
                    except Exception as ex:
                        e["err"] = type(ex).__name__
                    recs.append(e)
        else:
            s_ = snapshot(p, kind, k, "snap")
            s_["history"] = "".join(seq)
            recs.append(s_)
    return recs, len(seqs)


def run(ctx: Ctx):
    thorough = ctx.tier == "thorough"
    plan = {"cube3D": 4, "ico": 4, "cube4D": 2} if thorough else {"cube3D": 4, "ico": 4, "cube4D": 2}
    ctx.cov["rule"] = ("the complete subdivision history of each polytope (create + every divide_edges up to the level bound), "
                       "every node mapped to exact lattice coordinates, every edge, every get_nodes(N) before/after each "
                       "division; non-trivial = a logged event")
    ctx.assumptions += ["a float coordinate is identified with the lattice point (a + b*phi)/2^k when the residual is < 1e-9 "
                        "and the representation with |a|,|b| <= 2^k is unique"]
    for kind, ml in (("cube3D", 3), ("ico", 3), ("cube4D", 2 if thorough else 1)):
        ctx.model("Polytope", ctx.cfg(f"poly_{kind}.cfg", cfg_text(kind, ml)), coverage_required=["Divide"],
                  note=f"operational subdivision = lattice, {kind} to level {ml}")
    ctx.mutant("Polytope", ctx.cfg("poly_m1.cfg", cfg_text("cube3D", 2, "noExtras", ["EdgesAreUnitEdges"], ())), "EdgesAreUnitEdges")
    ctx.mutant("Polytope", ctx.cfg("poly_m2.cfg", cfg_text("ico", 2, "noExtras", ["NodesAreLattice"], ())), "NodesAreLattice")
    ctx.mutant("Polytope", ctx.cfg("poly_m3.cfg", cfg_text("cube3D", 1, "splitKeepsOld", ["EdgesAreUnitEdges"], ())), "EdgesAreUnitEdges")
    for kind, ml in plan.items():
        recs = history(kind, ml)
        for i, r in enumerate(recs):
            r["tid"] = i
        rejects = ctx.validate("Polytope_Trace", f"Polytope_Trace_{kind}.cfg", recs, name=f"poly_{kind}", timeout=1800,
                               count_traces=1)
        for tid, clause, _ in rejects:
            r = recs[tid]
            what = f"{r['ev']} level {r.get('lvl')}" if r["ev"] != "get" else f"get_nodes(N={r['n']}, projection={r['proj']}) {r['when']}"
            ctx.violation(f"{KINDS[kind]}: {what}: {clause}", dict(kind=kind, event={k: v for k, v in r.items() if k not in ("nodes", "edges", "rows")}, clause=clause))
        ctx.count(len(recs))
        ctx._nontrivial.update((kind, i) for i in range(len(recs)))
        snap = [r for r in recs if r["ev"] == "divide" and not r["err"]]
        if not snap:
            continue
        snap = snap[0]
        ctx.sample(dict(kind=kind, event="divide", lvl=snap["lvl"], n_nodes=len(snap["nodes"]), n_edges=len(snap["edges"]),
                        first_nodes=snap["nodes"][:3], levels_tail=snap["levels"][-3:]))
    # short histories on fresh objects: divisions without a look in between, getters in every position
    import random as _r
    rng = _r.Random(ctx.seed)
    hplan = [("cube3D", 2, "DgG", 4, 100), ("ico", 2, "DgG", 4, 100), ("cube4D", 1, "DhH", 3, 40)]     # all such sequences
    if thorough:
        hplan = [("cube3D", 3, "DgG", 5, 400), ("ico", 3, "DgG", 5, 400), ("cube4D", 2, "DhH", 4, 80), ("cube4D", 1, "DgGhH", 3, 60)]
    for kind, maxdiv, alphabet, length, limit in hplan:
        recs, nseq = short_histories(kind, maxdiv, alphabet, length, rng, limit)
        for i, r in enumerate(recs):
            r["tid"] = i
        rejects = ctx.validate("Polytope_Trace", f"Polytope_Trace_{kind}.cfg", recs, name=f"hist_{kind}", timeout=2400, count_traces=nseq)
        for tid, clause, _ in rejects:
            r = recs[tid]
            what = {"get": lambda: f"get_nodes(N={r['n']}, projection={r['proj']})", "half": lambda: f"get_half_of_hypercube(N={r['n']}, projection={r['proj']})"}.get(r["ev"], lambda: r["ev"])()
            ctx.violation(f"{KINDS[kind]} history '{r.get('history', r.get('when', ''))}': {what}: {clause}",
                          dict(kind=kind, history=r.get("history"), event={k: v for k, v in r.items() if k not in ("nodes", "edges", "rows")}, clause=clause))
        ctx.count(nseq)
        ctx._nontrivial.update((kind, "h", r.get("history")) for r in recs if r.get("history"))
    ctx.cov["exhaustive"] = True
