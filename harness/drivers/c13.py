"""C13 — merging and deleting cells is exact lumping with correct index bookkeeping.

S->C over the complete state graph of spec/Merge.tla: every edge (s, a, s') is replayed into the
real merge_matrix_cells / delete_rate_cells from the code's own state at s (reached along a BFS
tree of edges that were themselves verified), and the WHOLE returned state (index list and every
matrix entry) must equal one of the spec's successors for (s, a).
Plus the combined step SQRA.cut_and_merge against spec/CutMerge.tla (C->S trace validation).
"""
from __future__ import annotations

import random
from collections import defaultdict, deque

import numpy as np
from scipy.sparse import csr_array

from ..core import Ctx, quiet, MachineryError

MATKINDS = ["generic", "symmetric", "zerorow", "adjacency"]

INVS_FULL = """INVARIANT TypeOK
INVARIANT Disjoint
INVARIANT ListCanonical
INVARIANT ZeroRowSumKept
INVARIANT SymmetryKept
INVARIANT ExactLumping
INVARIANT OneShotIsStepwise
INVARIANT ReadingsAgreeOnPresent
INVARIANT MergeKeepsCells
PROPERTY CellsOnlyShrink
PROPERTY GroupsOnlyCoarsen
"""
INVS_LIGHT = """INVARIANT TypeOK
INVARIANT Disjoint
INVARIANT ListCanonical
INVARIANT ZeroRowSumKept
INVARIANT SymmetryKept
INVARIANT ExactLumping
"""


def cfg_text(n, kind, maxj, maxlen, maxd, bug="none", invs=INVS_LIGHT):
    return (f"SPECIFICATION Spec\nCONSTANTS\n  N = {n}\n  MatKind = \"{kind}\"\n  MaxJ = {maxj}\n"
            f"  MaxLen = {maxlen}\n  MaxD = {maxd}\n  Bug = \"{bug}\"\n{invs}")


def m0(n, kind):
    M = np.zeros((n, n))
    for i in range(n):
        for j in range(n):
            g = float(2 ** (i * n + j)) if kind in ("generic", "zerorow") else 0.0
            if kind == "generic":
                M[i, j] = g
            elif kind == "symmetric":
                M[i, j] = float(2 ** (min(i, j) * n + max(i, j)))
            elif kind == "zerorow":
                M[i, j] = 0.0 if i == j else g
            elif kind == "small":
                M[i, j] = 1 + ((7 * i + 3 * j) % 11)
            elif kind == "smallsym":
                M[i, j] = 1 + ((7 * min(i, j) + 3 * max(i, j)) % 11)
            elif kind == "smallzero":
                M[i, j] = 0.0 if i == j else 1 + ((7 * i + 3 * j) % 11)
            elif kind == "adjacency":
                M[i, j] = 1.0 if (abs(i - j) == 1 or abs(i - j) == n - 1) else 0.0
    if kind in ("zerorow", "smallzero"):
        for i in range(n):
            M[i, i] = -M[i].sum()
    return M


def to_dense(M):
    if hasattr(M, "toarray"):
        return np.asarray(M.toarray(), dtype=float)
    return np.asarray(M, dtype=float)


def concrete_joins(J, rng, present, n):
    """Concrete all_to_join lists with the SAME abstract meaning as the set of sets J."""
    base = [sorted(s) for s in sorted(J, key=sorted)]
    out = [("sorted", [list(s) for s in base])]
    sh = [list(reversed(s)) for s in base]
    rng.shuffle(sh)
    out.append(("shuffled-reversed", sh))
    if base:
        dup = [list(s) for s in base]
        dup.append(list(dup[0]))                     # a repeated sublist
        dup[-1].append(dup[-1][0])                   # a repeated member
        c = rng.randrange(n)
        dup.insert(0, [c])                           # a singleton (present or already deleted): no-op
        out.append(("redundant", dup))
    return out


def concrete_deletes(D, rng):
    d = sorted(D)
    out = [("sorted", list(d))]
    if d:
        x = list(reversed(d)) + [d[0]]
        out.append(("reversed-dup", x))
        out.append(("ndarray", np.array(d)))
    return out


class Impl:
    """The real code, threading (matrix, index_list)."""

    def __init__(self):
        from molgri.molecules.rate_merger import merge_matrix_cells, delete_rate_cells
        self.merge, self.delete = merge_matrix_cells, delete_rate_cells

    def apply(self, st, op, arg):
        M, il = st
        with quiet():
            if op == "Merge":
                return self.merge(M, all_to_join=[list(x) for x in arg], index_list=il)
            return self.delete(M, to_remove=arg, index_list=il)


def same_state(code_state, spec_state):
    M, il = code_state
    exp_il = [list(g) for g in spec_state["ilist"]]
    if il is None:
        return False, "index list is None"
    got_il = [[int(x) for x in g] for g in il]
    if got_il != exp_il:
        return False, f"index list {got_il} != {exp_il}"
    exp_M = np.array([list(r) for r in spec_state["mat"]], dtype=float).reshape(len(exp_il), len(exp_il))
    D = to_dense(M)
    if D.shape != exp_M.shape:
        return False, f"matrix shape {D.shape} != {exp_M.shape}"
    if not np.array_equal(D, exp_M):
        return False, f"matrix {D.tolist()} != {exp_M.tolist()}"
    return True, ""


def replay_graph(ctx: Ctx, n, kind, storage, states, inits, edges, rng, variants=True):
    impl = Impl()
    (init,) = inits
    M = m0(n, kind)
    M = csr_array(M) if storage == "csr" else M
    # successors grouped by (src, action, args)
    succ = defaultdict(set)
    for s, d, name, args in edges:
        succ[(s, name, args[0])].add(d)
    out_edges = defaultdict(list)
    for (s, name, arg), dsts in succ.items():
        out_edges[s].append((name, arg, dsts))
    code = {init: ((M, None), [])}      # state id -> (code state, history)
    ok0, why = same_state((M, [[i] for i in range(n)]), states[init])
    if not ok0:
        raise MachineryError(f"initial matrix of the driver differs from the spec's M0 ({kind}): {why}")
    queue = deque([init])
    seen_edges = 0
    while queue:
        s = queue.popleft()
        st, hist = code[s]
        if not states[s]["groups"]:
            continue   # terminal: the 0x0 matrix
        for name, arg, dsts in sorted(out_edges[s], key=lambda e: (e[0], sorted(map(sorted, e[1])) if e[0] == "Merge" else sorted(e[1]))):
            if name == "Merge":
                concs = concrete_joins(arg, rng, states[s]["groups"], n)
            else:
                concs = concrete_deletes(arg, rng)
            if not variants:
                concs = concs[:1]
            for vname, conc in concs:
                seen_edges += 1
                h = hist + [(name, jl(conc))]
                key = f"n={n} M0={kind} {storage}: " + " ; ".join(f"{a}({b})" for a, b in h)
                ctx.count(1, nontrivial_key=(n, kind, s, name, str(jl(conc))) if states[s]["groups"] != frozenset(dsts) else None)
                try:
                    res = impl.apply(st, name, conc)
                    err = None
                except Exception as ex:   # any exception is a violation: the operation is total
                    res, err = None, f"{type(ex).__name__}: {ex}"
                matched = None
                if res is not None:
                    whys = []
                    for d in dsts:
                        ok, why = same_state(res, states[d])
                        if ok:
                            matched = d
                            break
                        whys.append(why)
                    if matched is None:
                        err = "; or ".join(whys)
                if matched is None:
                    ctx.violation(key, dict(n=n, matkind=kind, storage=storage, history=h,
                                            expected=[dict(ilist=states[d]["ilist"], mat=states[d]["mat"]) for d in dsts],
                                            observed=err))
                    continue
                if matched not in code:
                    code[matched] = (res, h)
                    queue.append(matched)
    unreached = set(states) - set(code)
    return seen_edges, unreached


def jl(conc):
    if isinstance(conc, np.ndarray):
        return [int(x) for x in conc]
    return [list(map(int, x)) if isinstance(x, (list, tuple, set, frozenset)) else int(x) for x in conc]


# ------------------------------------------------------------------------------------------------
# random long histories, C->S through Merge_Trace
# ------------------------------------------------------------------------------------------------

def random_histories(ctx: Ctx, count, n, steps, rng, mass=False):
    """mass=True: deletions remove MOST of the cells at once (all but 1-5 survivors, high row numbers among them) - what the
    combined step does with an upper energy limit on a steep landscape; the few survivors must keep ascending row order"""
    impl = Impl()
    records = []
    for tid in range(count):
        kind = rng.choice(["small", "smallsym", "smallzero", "adjacency"])
        storage = rng.choice(["dense", "csr"])
        M = m0(n, kind)
        st = (csr_array(M) if storage == "csr" else M, None)
        ops = []
        for _ in range(steps):
            if rng.random() < 0.7:
                k = rng.randint(0, 3)
                arg = [rng.sample(range(n), rng.randint(1, min(4, n))) for _ in range(k)]
                name = "Merge"
            elif mass and rng.random() < 0.6:
                alive = sorted(x for g in (st[1] if st[1] is not None else [[i] for i in range(n)]) for x in g)
                keep = set(rng.sample(alive, min(len(alive), rng.randint(1, 5))))
                arg = [x for x in alive if x not in keep] + rng.sample(range(n), rng.randint(0, 1))
                rng.shuffle(arg)
                name = "Delete"
            else:
                arg = rng.sample(range(n), rng.randint(0, 2))
                name = "Delete"
            try:
                st = impl.apply(st, name, arg)
                il = [[int(x) for x in g] for g in st[1]]
                D = to_dense(st[0])
                obs = dict(ilist=il, mat=[[int(v) for v in row] for row in D.tolist()], exact=bool(np.all(D == np.round(D))), err="")
            except Exception as ex:
                obs = dict(ilist=[], mat=[], exact=True, err=type(ex).__name__)
            ops.append(dict(op=name, arg=[list(a) for a in arg] if name == "Merge" else list(arg), **obs))
            if obs["err"] or not st[1]:
                break
        records.append(dict(tid=tid, n=n, kind=kind, storage=storage, ops=ops))
    return records


def run(ctx: Ctx):
    thorough = ctx.tier == "thorough"
    rng = random.Random(ctx.seed)
    ctx.cov["rule"] = ("every edge of TLC's complete state graph of Merge.tla (all reachable partitions x all join "
                       "sets / deletion sets within the bounds) replayed into the real code in several concrete "
                       "spellings; non-trivial = the operation changes the abstract state")
    ctx.assumptions += ["matrix entries are integers below 2^53 so float64 arithmetic is exact",
                        "a further operation on the 0x0 matrix (everything deleted) is unconstrained"]
    # 1. model level: invariants of the specification itself (exhaustive, small constants)
    ctx.model("Merge", ctx.cfg("m_full.cfg", cfg_text(4, "generic", 2, 4, 2, invs=INVS_FULL)),
              coverage_required=["Merge", "Delete"], note="n=4 all invariants incl. one-shot = step-wise")
    ctx.mutant("Merge", ctx.cfg("mut1.cfg", cfg_text(4, "generic", 1, 2, 1, bug="lossyMerge", invs="INVARIANT MergeKeepsCells\n")), "MergeKeepsCells")
    ctx.mutant("Merge", ctx.cfg("mut2.cfg", cfg_text(4, "zerorow", 1, 2, 1, bug="noRenorm", invs="INVARIANT ZeroRowSumKept\n")), "ZeroRowSumKept")

    # 2. S->C: complete state graph replay
    plans = [(4, 2, 4, 2)]
    if thorough:
        plans = [(4, 3, 4, 3), (5, 2, 3, 2)]
    total_edges = 0
    for (n, maxj, maxlen, maxd) in plans:
        for kind in MATKINDS:
            states, inits, edges = ctx.graph("Merge", ctx.cfg(f"g_{n}_{kind}.cfg", cfg_text(n, kind, maxj, maxlen, maxd, invs=INVS_LIGHT)))
            if thorough:
                todo = [("dense", True), ("csr", True)]
            else:     # quick: every kind once per storage form somewhere, spelling variants on the generic matrix
                todo = {"generic": [("dense", True), ("csr", True)], "zerorow": [("csr", False)],
                        "symmetric": [("dense", False)], "adjacency": [("csr", False)]}[kind]
            for storage, variants in todo:
                ne, unreached = replay_graph(ctx, n, kind, storage, states, inits, edges, rng, variants=variants)
                total_edges += ne
                ctx.cov["traces_validated_against_impl"] += ne
                if unreached and not ctx.violations and not ctx.known_hit:
                    raise MachineryError(f"{len(unreached)} spec states were never reached by the code although no edge failed")
            if kind == "generic" and n == plans[0][0]:
                e = edges[len(edges) // 2]
                ctx.sample(dict(edge=dict(action=e[2], arg=e[3], src=dict(ilist=states[e[0]]["ilist"]),
                                          dst=dict(ilist=states[e[1]]["ilist"], mat=states[e[1]]["mat"])), n=n, matkind=kind))
    ctx.cov["exhaustive"] = True
    ctx.cov["graph_edges_replayed"] = total_edges

    # 3. C->S: random long histories on larger n
    recs = (random_histories(ctx, 300 if thorough else 80, 9, 12, rng) + random_histories(ctx, 200 if thorough else 40, 6, 10, rng)
            + random_histories(ctx, 200 if thorough else 60, 13, 10, rng) + random_histories(ctx, 100 if thorough else 20, 17, 8, rng)
            + random_histories(ctx, 120 if thorough else 30, 10, 4, rng, mass=True) + random_histories(ctx, 120 if thorough else 30, 21, 5, rng, mass=True)
            + random_histories(ctx, 60 if thorough else 10, 40, 4, rng, mass=True))
    for i, r in enumerate(recs):
        r["tid"] = i
    rejects = ctx.validate("Merge_Trace", "Merge_Trace.cfg", recs, name="merge_hist")
    for tid, clause, info in rejects:
        r = recs[tid]
        hist = [(o["op"], o["arg"]) for o in r["ops"]]
        ctx.violation(f"random n={r['n']} M0={r['kind']} {r['storage']}: " + " ; ".join(f"{a}({b})" for a, b in hist[:info if isinstance(info, int) else len(hist)]),
                      dict(record=r, clause=clause, step=info))
    ctx.count(len(recs))
    ctx.sample(dict(random_history=recs[0]))

    # 4. the combined step
    from . import c13_cut
    c13_cut.run(ctx, rng)
