"""C01 — SqRA rate matrix is the SqRA formula and a reversible generator.

Model: spec/Sqra.tla (operational entry-wise model of get_rate_matrix vs the declarative formula on the
exact energy lattice E_i = k_i * 2RT ln(base)).  Conformance C->S: the real SQRA class on all symmetric
patterns for n <= 4 and random sparse patterns for n <= 8, several temperatures, both bases, both
storage forms, compared exactly in TLC on the common-denominator lattice."""
from __future__ import annotations

import itertools
import math
import random

import numpy as np
from scipy.constants import k as kB, N_A
from scipy.sparse import csr_array, coo_array

from ..core import Ctx, quiet

SH = [(1, 1), (2, 1), (1, 3), (3, 2), (2, 3), (3, 1)]


def cfg_text(n, bug="none", invs=("OperationalIsDeclarative", "OnPattern", "RowSumZero", "DetailedBalance", "ShiftInvariant", "LinearInD")):
    return (f"SPECIFICATION Spec\nCONSTANTS\n  N = {n}\n  SH <- SHSet\n  Vs <- VSet{n}\n  Ks <- KSet{n}\n  Ds = {{1, 3}}\n"
            f"  Caps <- CapSet\n  Base = 2\n  Bug = \"{bug}\"\n" + "".join(f"INVARIANT {i}\n" for i in invs))


def unit(T, base):
    return 2 * kB * N_A * T * math.log(base) / 1000.0          # kJ/mol per level


T_CAP = 250.0 * 1000.0 / (2 * kB * N_A * math.log(2))            # u(T_CAP, 2) = 250 kJ/mol: cap = 2 levels


def build(n, pairs, sh, form):
    rows = [p[0] for p in pairs] + [p[1] for p in pairs]
    cols = [p[1] for p in pairs] + [p[0] for p in pairs]
    S = [s for s, _ in sh] * 2
    h = [hh for _, hh in sh] * 2
    order = sorted(range(len(rows)), key=lambda e: (rows[e], cols[e]))
    rows, cols = [rows[e] for e in order], [cols[e] for e in order]
    S, h = [float(S[e]) for e in order], [float(h[e]) for e in order]
    mk = (lambda d: coo_array((np.array(d), (np.array(rows, dtype=int), np.array(cols, dtype=int))), shape=(n, n)))
    Sm, hm = mk(S), mk(h)
    if form == "csr":
        Sm, hm = Sm.tocsr(), hm.tocsr()
    elif form == "mixed":
        Sm = Sm.tocsr()
    return Sm, hm, rows, cols, S, h


VSCALES = [0, 0, -30, 20, -45]          # log2 of the unit the integer volumes are given in (2^-30 ~ 1e-9: tiny 6D cells)


def one(n, pairs, sh, V, k, D, T, base, form, rng):
    from molgri.molecules.transitions import SQRA
    vlog = rng.choice(VSCALES)
    vs = 2.0 ** vlog
    Sm, hm, rows, cols, S, h = build(n, pairs, sh, form)
    u = unit(T, base)
    cap = 2 if (T == T_CAP and base == 2) else -1
    E = np.array(k, dtype=float) * (250.0 if cap == 2 else u)
    K = max([abs(a - b) for a in k for b in k] + [0])
    if cap == 2:
        K = max(K, 2)
    C = 36 * base ** K
    rec = dict(n=n, pat=[[r, c] for r, c in zip(rows, cols)], S=[int(x) for x in S], h=[int(x) for x in h], V=[int(v) for v in V],
               k=[int(x) for x in k], D=int(D), cap=cap, base=base, C=C, T=T, form=form, vlog=vlog, Qc=[], Qme=[], rowRes12=0, wide=False, exact=True, shift12=0, linear12=0, err="")
    try:
        with quiet():
            Q = SQRA(E, np.array(V, dtype=float) * vs, hm, Sm).get_rate_matrix(float(D), T)
        A = np.asarray(Q.toarray(), dtype=float) * vs          # volumes in units of 2^vlog: exact rescaling by a power of two
        X = A * C
        R = np.round(X)
        rec["exact"] = bool(A.shape == (n, n) and np.all(np.abs(X - R) <= 1e-9 * np.maximum(1.0, np.abs(R))))
        rec["Qc"] = [[int(v) for v in row] for row in R.tolist()]
        c = rng.choice([rng.uniform(-30, 30), -25000.0, -6000.0, 4000.0, 30000.0])      # also absolute (force-field / QM) energy scales
        with quiet():
            again = SQRA(E, np.array(V, dtype=float) * vs, hm, Sm).get_rate_matrix(float(D), T).toarray() * vs     # the same inputs once more
        if not np.array_equal(again, A):
            rec["exact"] = False           # a second evaluation on the same input objects differs: the inputs were modified
        with quiet():
            Q2 = SQRA(E + c, np.array(V, dtype=float) * vs, hm, Sm).get_rate_matrix(float(D), T).toarray() * vs
            Q3 = SQRA(E, np.array(V, dtype=float) * vs, hm, Sm).get_rate_matrix(2.0 * D, T).toarray() * vs
        scale = np.maximum(np.abs(A), 1e-300)
        rec["shift12"] = int(np.ceil(np.max(np.abs(Q2 - A) / scale) * 1e12)) if A.size else 0
        rec["linear12"] = int(np.ceil(np.max(np.abs(Q3 - 2 * A) / scale) * 1e12)) if A.size else 0
    except Exception as ex:
        rec["err"] = type(ex).__name__
    return rec


def decompose(x, base):
    """x = m * base^e with m a positive integer not divisible by base (m <= 2000), to 1e-9 relative; else None"""
    if not (x > 0 and math.isfinite(x)):
        return None
    e0 = int(math.floor(math.log(x) / math.log(base)))
    for e in range(e0 - 12, e0 + 2):
        y = x / float(base) ** e if base == 2 else x * float(base) ** (-e)
        m = round(y)
        if 1 <= m <= 2000 and m % base and abs(y - m) <= 1e-9 * m:
            return int(m), int(e)
    return None


def wide(n, pairs, sh, V, k, D, T, form, rng):
    """energy levels spread over hundreds of kJ/mol (still below the cap): entries as mantissa and exponent"""
    from molgri.molecules.transitions import SQRA
    Sm, hm, rows, cols, S, h = build(n, pairs, sh, form)
    E = np.array(k, dtype=float) * unit(T, 2)
    rec = dict(n=n, pat=[[r, c] for r, c in zip(rows, cols)], S=[int(x) for x in S], h=[int(x) for x in h], V=[int(v) for v in V],
               k=[int(x) for x in k], D=int(D), cap=-1, base=2, C=1, T=T, form=form, Qc=[], Qme=[], rowRes12=0, wide=True, exact=True,
               shift12=0, linear12=0, err="")
    try:
        with quiet():
            A = np.asarray(SQRA(E, np.array(V, dtype=float), hm, Sm).get_rate_matrix(float(D), T).toarray(), dtype=float)
        if A.shape != (n, n) or not np.all(np.isfinite(A)):
            rec["exact"] = False
            return rec
        for i in range(n):
            for j in range(n):
                if i != j and A[i, j] != 0:
                    me = decompose(A[i, j] * 36, 2)
                    if me is None:
                        rec["exact"] = False
                    else:
                        rec["Qme"].append([i, j, me[0], me[1]])
        big = np.max(np.abs(A), axis=1)
        res = np.abs(A.sum(axis=1)) / np.where(big > 0, big, 1.0)
        rec["rowRes12"] = int(np.ceil(np.max(res) * 1e12))
        c = rng.choice([rng.uniform(-30, 30), -25000.0, -6000.0, 4000.0, 30000.0])      # also absolute (force-field / QM) energy scales
        with quiet():
            Q2 = SQRA(E + c, np.array(V, dtype=float), hm, Sm).get_rate_matrix(float(D), T).toarray()
            Q3 = SQRA(E, np.array(V, dtype=float), hm, Sm).get_rate_matrix(2.0 * D, T).toarray()
        scale = np.maximum(np.abs(A), 1e-300)
        rec["shift12"] = int(min(np.ceil(np.max(np.abs(Q2 - A) / scale) * 1e12), 10 ** 9))
        rec["linear12"] = int(min(np.ceil(np.max(np.abs(Q3 - 2 * A) / scale) * 1e12), 10 ** 9))
    except Exception as ex:
        rec["err"] = type(ex).__name__
    return rec


def cap_relation(T):
    """where exactly the one-sided cap sits: two cells, E_0 - E_1 just below / at / just above 500 kJ/mol (non-lattice reals);
    max relative deviation of Q_01 and Q_10 from exp(min(dE, 500)/2RT) and exp(-dE/2RT), in units of 1e-12"""
    from molgri.molecules.transitions import SQRA
    worst = 0.0
    two = coo_array((np.array([1.0, 1.0]), (np.array([0, 1]), np.array([1, 0]))), shape=(2, 2))
    for dE in (499.0, 500.0, 500.5, 503.0, 650.0):
        with quiet():
            A = SQRA(np.array([dE, 0.0]), np.ones(2), two.tocsr(), two.tocsr()).get_rate_matrix(1.0, T).toarray()
        x = 1000.0 / (2 * kB * N_A * T)
        want01, want10 = math.exp(min(dE, 500.0) * x), math.exp(-dE * x)
        worst = max(worst, abs(A[0, 1] / want01 - 1), abs(A[1, 0] / want10 - 1) if want10 > 0 else 0.0)
    return int(min(np.ceil(worst * 1e12), 10 ** 9))


def run(ctx: Ctx):
    thorough = ctx.tier == "thorough"
    rng = random.Random(ctx.seed)
    ctx.cov["rule"] = ("all symmetric sparsity patterns on n = 2..4 cells (incl. empty, disconnected, isolated rows) and random "
                       "sparse patterns on n <= 8, S, h, V from small positive integers, energy levels with differences up to 4 "
                       "(base 2) / 2 (base 3) compared as exact rationals, plus level differences up to 495 kJ/mol (just below the "
                       "cap) compared as mantissa and exponent, T in {100, 273, 300, 1000, T_cap}, D in {1, 3}, csr / row-major coo / mixed storage; "
                       "non-trivial = pattern with at least one pair")
    ctx.assumptions += ["energies on the lattice k * 2RT ln(base) so that the Boltzmann factor is an exact rational; "
                        "non-lattice reals only through the shift / linearity relations"]
    ctx.model("Sqra", ctx.cfg("sq3.cfg", cfg_text(3)), workers=16, note="n=3: all patterns, operational = declarative, reversibility")
    if thorough:
        ctx.model("Sqra", ctx.cfg("sq4.cfg", cfg_text(4)), workers=16, timeout=1800, note="n=4")
    ctx.model("Sqra", ctx.cfg("sq2.cfg", cfg_text(2)), note="n=2")
    for bug in ("hOtherOrder", "volumeOfColumn", "exponentSign", "symmetricCap", "lostHalf"):
        ctx.mutant("Sqra", ctx.cfg(f"sq_{bug}.cfg", cfg_text(3, bug, ["OperationalIsDeclarative"])), "OperationalIsDeclarative")
    recs = []
    temps = [100.0, 273.0, 300.0, 1000.0, T_CAP]
    for n in (2, 3, 4):
        allpairs = list(itertools.combinations(range(n), 2))
        for r in range(len(allpairs) + 1):
            for pairs in itertools.combinations(allpairs, r):
                reps = 3 if thorough else 1
                for _ in range(reps):
                    sh = [rng.choice(SH) for _ in pairs]
                    V = rng.sample([1, 2, 3, 6], n) if (n <= 4 and rng.random() < 0.8) else [rng.choice([1, 2, 3]) for _ in range(n)]
                    T = rng.choice(temps)
                    base = 2 if T == T_CAP else rng.choice([2, 3])
                    kmax = 4 if base == 2 else 2
                    k = [rng.randint(0, kmax) for _ in range(n)]
                    recs.append(one(n, pairs, sh, V, k, rng.choice([1, 3]), T, base, rng.choice(["csr", "coo", "mixed"]), rng))
    for _ in range(300 if thorough else 60):
        n = rng.randint(5, 8)
        allpairs = list(itertools.combinations(range(n), 2))
        pairs = rng.sample(allpairs, rng.randint(1, min(len(allpairs), 2 * n)))
        sh = [rng.choice(SH) for _ in pairs]
        V = [rng.choice([1, 2, 3, 6]) for _ in range(n)]
        T = rng.choice(temps)
        base = 2 if T == T_CAP else rng.choice([2, 3])
        k = [rng.randint(0, 4 if base == 2 else 2) for _ in range(n)]
        recs.append(one(n, pairs, sh, V, k, rng.choice([1, 3]), T, base, rng.choice(["csr", "coo", "mixed"]), rng))
    # wide energy ranges: level differences up to just below the 500 kJ/mol cap, entries as (mantissa, exponent)
    for _ in range(120 if thorough else 30):
        n = rng.randint(2, 6)
        allpairs = list(itertools.combinations(range(n), 2))
        pairs = rng.sample(allpairs, rng.randint(1, min(len(allpairs), 2 * n)))
        sh = [rng.choice(SH) for _ in pairs]
        V = [rng.choice([1, 2, 3, 6]) for _ in range(n)]
        T = rng.choice([100.0, 273.0, 300.0, 1000.0])
        kmax = int(495.0 / unit(T, 2))
        k = [rng.choice([0, rng.randint(0, kmax), rng.randint(0, kmax // 8), kmax]) for _ in range(n)]
        recs.append(wide(n, pairs, sh, V, k, rng.choice([1, 3]), T, rng.choice(["csr", "coo", "mixed"]), rng))
    # the position of the cap itself (the lattice only has pairs exactly at or far beyond it)
    for T in (250.0, 300.0, 400.0):
        r = wide(2, [(0, 1)], [(1, 1)], [1, 1], [0, 0], 1, T, "csr", rng)
        try:
            r["shift12"] = max(r["shift12"], 0)
            cap12 = cap_relation(T)
        except Exception as ex:
            r["err"], cap12 = type(ex).__name__, 0
        r["cap12"] = cap12
        recs.append(r)
    for i, r in enumerate(recs):
        r.setdefault("cap12", 0)
        r["tid"] = i
        ctx.count(1, nontrivial_key=i if r["pat"] else None)
    rejects = ctx.validate("Sqra_Trace", "Sqra_Trace.cfg", recs, name="sqra")
    for tid, clause, _ in rejects:
        r = recs[tid]
        key = (f"SQRA n={r['n']} pat={[p for p in r['pat'] if p[0] < p[1]]} S={r['S']} h={r['h']} V={r['V']}{('*2^' + str(r['vlog'])) if r.get('vlog') else ''} k={r['k']} "
               f"D={r['D']} T={r['T']:.1f} base={r['base']} {r['form']}: {clause}")
        ctx.violation(key, dict(record=r, clause=clause))
    ctx.cov["exhaustive"] = False
    ctx.sample(recs[len(recs) // 3])
    ctx.sample(recs[-1])
