"""C16 — radial grids parse to sorted Angstrom radii with interleaved shell boundaries.

Model: spec/Radial.tla (requests -> intended distances, increments, boundaries on exact rationals).
Conformance: every abstract request of the enumeration is rendered in several concrete syntaxes and
handed to the real TranslationParser; Radial_Trace validates distances, increments, boundaries,
rejection of negatives and syntax-independence of the grid identifier."""
from __future__ import annotations

import itertools
import random

import numpy as np

from ..core import Ctx, quiet
from ..project import digest

POOL = [0, 100, 150, 250, 300, 400, 1000, 1300]          # milli-nm
POOL_T = [0, 50, 100, 150, 200, 250, 300, 400, 500, 700, 1000, 1300, 2000]


def cfg_text(bug="none", invs=("Ascending", "Interleaved", "LastBoundary", "SingleRadius", "IncrementsPositive"), maxlen=3):
    return (f"SPECIFICATION Spec\nCONSTANTS\n  Pool = {{{', '.join(map(str, POOL))}}}\n  MaxLen = {maxlen}\n  Bug = \"{bug}\"\n"
            + "".join(f"INVARIANT {i}\n" for i in invs))


def dec(m, rng=None, style=0):
    """render milli-nm as a decimal nm literal"""
    neg = m < 0
    m = abs(m)
    s = f"{m // 1000}.{m % 1000:03d}".rstrip("0")
    if s.endswith("."):
        s = s + "0" if style % 2 else s[:-1]
    if style == 2 and "." in s and not s.endswith("."):
        s += "0"
    return ("-" if neg else "") + s


def renderings(req, rng):
    k = req["kind"]
    sp = lambda: " " * rng.randint(0, 2)
    out = []
    if k == "list":
        v = [dec(x, style=i) for i, x in enumerate(req["vals"])]
        out.append("[" + ", ".join(v) + "]")
        out.append("(" + ",".join(v) + ("," if len(v) == 1 else "") + ")")
        if len(v) > 1:
            out.append((sp() + ",").join(v))
        out.append("[" + sp() + (sp() + "," + sp()).join(dec(x) for x in req["vals"]) + sp() + "]")
    elif k == "scalar":
        out += [dec(req["a"]), sp() + dec(req["a"], style=1) + sp(), "[" + dec(req["a"]) + "]"]
    elif k == "linspace":
        args = [dec(req["a"]), dec(req["b"])] + ([] if req["num"] < 0 else [str(req["num"])])
        out.append("linspace(" + ", ".join(args) + ")")
        out.append("linspace" + sp() + "(" + sp() + (sp() + "," + sp()).join(args) + sp() + ")")
        out.append("np.linspace(" + ",".join(args) + ")")
        out.append(rng.choice([" ", "  ", "\t"]) + "linspace(" + ", ".join(args) + ")" + rng.choice([" ", "  ", "\t", " \n"]))      # whitespace around the whole request
    else:
        a, b, st = req["a"], req["b"], req["step"]
        args = [dec(a), dec(b), dec(st)]
        out.append("range(" + ", ".join(args) + ")")
        out.append("arange" + sp() + "(" + (sp() + "," + sp()).join(args) + ")")
        out.append(rng.choice(["", " "]) + "range(" + ", ".join(args) + ")" + rng.choice([" ", "\t", "  "]))
        if st == 1000:
            out.append("range(" + dec(a) + ", " + dec(b) + ")")
            if a == 0:
                out.append("range(" + dec(b) + ")")
    return out


def canonical(req):
    """seed-independent name of an abstract request (the concrete spelling/whitespace is in the replay file)"""
    k = req["kind"]
    if k == "list":
        return "[" + ", ".join(dec(x) for x in req["vals"]) + "]"
    if k == "scalar":
        return dec(req["a"])
    if k == "linspace":
        return "linspace(" + ", ".join([dec(req["a"]), dec(req["b"])] + ([] if req["num"] < 0 else [str(req["num"])])) + ")"
    return f"range({dec(req['a'])}, {dec(req['b'])}, {dec(req['step'])})"


def observe(text):
    from molgri.space.translations import TranslationParser, get_between_radii
    rec = dict(text=text, err="", d5=[], inc5=[], bet5=[], incErr="", hash="", bits=-1)
    try:
        with quiet():
            tp = TranslationParser(text)
            d = np.asarray(tp.get_trans_grid(), dtype=float)
        rec["d5"] = [int(round(x * 1e5)) for x in d]
        rec["hash"] = str(tp.grid_hash)
        rec["bits_digest"] = digest(d)
        rec["name_ok"] = bool(tp.get_name() == str(tp.grid_hash) and tp.get_N_trans() == len(d))
    except Exception as ex:
        rec["err"] = type(ex).__name__
        return rec
    try:
        with quiet():
            inc = tp.get_increments()
            bet = get_between_radii(tp.get_trans_grid())
        rec["inc5"] = [int(round(x * 1e5)) for x in inc]
        rec["bet5"] = [int(round(x * 1e5)) for x in bet]
    except Exception as ex:
        rec["incErr"] = type(ex).__name__
    return rec


def requests(thorough, rng):
    reqs = []
    pool = POOL_T if thorough else POOL
    maxlen = 4 if thorough else 3
    for L in range(1, maxlen + 1):
        combos = list(itertools.product(pool, repeat=L))
        if len(combos) > (6000 if thorough else 700):
            combos = rng.sample(combos, 6000 if thorough else 700)
        for v in combos:
            reqs.append(dict(kind="list", vals=list(v)))
    reqs.append(dict(kind="list", vals=[300, -100]))
    reqs.append(dict(kind="list", vals=[-50]))
    for a in pool:
        reqs.append(dict(kind="scalar", a=a))
    for a, b in itertools.product(pool, repeat=2):
        if a <= b:
            for n in (-1, 1, 2, 3, 7, 11):
                reqs.append(dict(kind="linspace", a=a, b=b, num=n))
    for a, b in itertools.product(pool, repeat=2):
        for st in (100, 300, 1000) + ((50, 250) if thorough else ()):
            reqs.append(dict(kind="range", a=a, b=b, step=st))
    # the "stop + a little" idiom for an inclusive end point: the last grid point lies just (1e-3 nm) below the stop
    for a in pool[:4]:
        for st, k in ((500, 8), (1000, 3), (300, 5)):
            reqs.append(dict(kind="range", a=a, b=a + k * st + 1, step=st))
            reqs.append(dict(kind="range", a=a, b=a + k * st + 50, step=st))
    return reqs


def run(ctx: Ctx):
    thorough = ctx.tier == "thorough"
    rng = random.Random(ctx.seed)
    ctx.cov["rule"] = ("abstract requests (lists of up to 3/4 decimals from a pool in every order, scalars, linspace(a<=b[,num]), "
                       "range/arange(a[,b[,step]])) each rendered in 3-4 concrete syntaxes with varying whitespace and decimal "
                       "spelling; non-trivial = distinct string")
    ctx.assumptions += ["linspace with start > stop is left open (the statement's 'ascending order' and 'intended distances' conflict)",
                        "distances compared at 1e-5 Angstrom"]
    ctx.model("Radial", ctx.cfg("rad.cfg", cfg_text()), workers=8, note="requests over an 8-value pool")
    ctx.mutant("Radial", ctx.cfg("rad_m1.cfg", cfg_text("lastBoundaryFull", ["LastBoundary"], 2)), "LastBoundary")
    ctx.mutant("Radial", ctx.cfg("rad_m2.cfg", cfg_text("noSort", ["Ascending"], 2)), "Ascending")
    recs = []
    bits = {}
    for req in requests(thorough, rng):
        for text in renderings(req, rng):
            rec = observe(text)
            rec["req"] = req
            if rec["err"] == "":
                rec["bits"] = bits.setdefault(rec.pop("bits_digest"), len(bits))
            recs.append(rec)
            ctx.count(1, nontrivial_key=text)
    for i, r in enumerate(recs):
        r["tid"] = i
    chunk = 20000
    for c0 in range(0, len(recs), chunk):
        rejects = ctx.validate("Radial_Trace", "Radial_Trace.cfg", recs[c0:c0 + chunk], name=f"radial_{c0}", timeout=1800)
        for tid, clause, _ in rejects:
            r = recs[tid]
            ctx.violation(f"TranslationParser {canonical(r['req'])}: {clause}", dict(text=r["text"], request=r["req"], clause=clause,
                                                                           d5=r["d5"], err=r["err"]))
    ctx.sample(recs[3])
    ctx.sample(recs[-3])
