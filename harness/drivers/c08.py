"""C08 — grids and their geometry are reproducible, prefix-stable and history-independent.

Model: spec/GridLife.tla (grid objects, the process-global generator, getters; the library's re-seed
discipline implies reproducibility in every interleaving; un-seeded draws are negative configs).
S->C: TLC -simulate generates behaviours (Create / Get / UserSeed / UserDraw / Drop over a pool of real
grid specifications); the driver executes them in ONE process with numpy's generator functions wrapped.
C->S: the recorded events (RNG events per call, digests of every returned array) are validated by
GridLife_Trace against reference digests from FRESH processes, plus the prefix relation over N."""
from __future__ import annotations

import random

import numpy as np

from ..core import Ctx, quiet, MachineryError
from ..gridlife import GETTERS, RngTap, create, call_getter, dig, fresh_reference, DIM

POOL = [("ico", 7), ("ico", 13), ("ico", 43), ("cube3D", 9), ("randomS", 6), ("cube4D", 9), ("randomQ", 6), ("cube4D", 3), ("zero3D", 1)]


def cfg_text(specs, getters, maxobjs, bug="none", invs=("Reproducible", "GetterValueFixed"), props=("HistoryIndependent", "GettersPure")):
    g = ", ".join(f'"{x}"' for x in getters)
    return (f"SPECIFICATION Spec\nCONSTANTS\n  Specs <- {specs}\n  Getters = {{{g}}}\n  MaxObjs = {maxobjs}\n  MaxDraws = 2\n"
            f"  UserSeeds = {{7, 15}}\n  Bug = \"{bug}\"\n" + "".join(f"INVARIANT {i}\n" for i in invs) + "".join(f"PROPERTY {p}\n" for p in props))


class Ids:
    def __init__(self):
        self.t = {}

    def __call__(self, h):
        return self.t.setdefault(h, len(self.t))


def execute(behaviours, ids):
    """run TLC's behaviours against the real library in this process"""
    events = []
    scr = random.Random(12345)

    def scramble(tap):
        # put the global generator into a fresh arbitrary state before every library call
        np.random.seed(scr.randrange(2 ** 31))
        np.random.random(scr.randrange(1, 9))
        tap.take()
    with RngTap() as tap:
        for bi, beh in enumerate(behaviours):
            objs = []
            for (name, args, _state) in beh:
                if name in ("Create", "Get"):
                    scramble(tap)
                if name == "Create":
                    alg, N = args[0]
                    alg = str(alg)
                    e = dict(ev="Create", beh=bi, alg=alg, n=int(N), rng=[], digest=-1, err="")
                    try:
                        with quiet():
                            g = create(alg, int(N))
                            e["digest"] = ids(dig(call_getter(g, "array")))
                        objs.append((alg, int(N), g))
                    except Exception as ex:
                        e["err"] = type(ex).__name__
                        objs.append((alg, int(N), None))
                    e["rng"] = tap.take()
                    events.append(e)
                elif name == "Get":
                    i, what = int(args[0]), str(args[1])
                    if i > len(objs) or objs[i - 1][2] is None:
                        continue
                    alg, N, g = objs[i - 1]
                    e = dict(ev="Get", beh=bi, alg=alg, n=N, what=what, rng=[], digest=-1, err="")
                    try:
                        with quiet():
                            e["digest"] = ids(dig(call_getter(g, what)))
                    except Exception as ex:
                        # C08 is about reproducibility, not totality (that is C19): an error class is a value like any other
                        e["digest"] = ids("ERR:" + type(ex).__name__)
                    e["rng"] = tap.take()
                    events.append(e)
                elif name == "UserSeed":
                    np.random.seed(int(args[0]))
                    tap.take()
                    events.append(dict(ev="UserSeed", beh=bi, s=int(args[0])))
                elif name == "UserDraw":
                    np.random.random(5)
                    tap.take()
                    events.append(dict(ev="UserDraw", beh=bi))
                elif name == "Drop":
                    if objs:
                        objs.pop(0)
                    events.append(dict(ev="Drop", beh=bi))
    return events


def prefix_events(ids_by_alg, plan):
    """per-row digests of grids of increasing N and of the polytope behind them"""
    events = []
    from molgri.space import polytopes as P
    for alg, Ns in plan.items():
        rowid = ids_by_alg.setdefault(alg, Ids())
        poly_ids = []
        if alg in ("ico", "cube3D", "cube4D"):
            with quiet():
                p = {"ico": P.IcosahedronPolytope, "cube3D": P.Cube3DPolytope, "cube4D": P.Cube4DPolytope}[alg]()
                need = max(Ns)
                count = lambda: len(p.get_half_of_hypercube()) if alg == "cube4D" else p.G.number_of_nodes()
                while count() < need:
                    p.divide_edges()
                nodes = p.get_half_of_hypercube(projection=True) if alg == "cube4D" else p.get_nodes(projection=True)
            poly_ids = [rowid(dig(r)) for r in np.asarray(nodes)]
        for N in Ns:
            e = dict(ev="Rows", alg=alg, n=int(N), ids=[], poly=poly_ids, err="")
            try:
                with quiet():
                    g = create(alg, N)
                    arr = np.asarray(g.get_grid_as_array(only_upper=True) if DIM[alg] == 4 else g.get_grid_as_array())
                e["ids"] = [rowid(dig(r)) for r in arr]
            except Exception as ex:
                e["err"] = type(ex).__name__
            events.append(e)
    return events


def run(ctx: Ctx):
    thorough = ctx.tier == "thorough"
    rng = random.Random(ctx.seed)
    ctx.cov["rule"] = ("behaviours generated by TLC -simulate from GridLife.tla over a pool of 9 grid specifications (Create, getters in "
                       "any order and repeated, user re-seeding and drawing in between, dropping objects), executed in one process; "
                       "every returned array compared bitwise (sha256) with fresh processes; per-row prefix relation over N; "
                       "non-trivial = distinct (spec, getter, position in behaviour)")
    ctx.assumptions += ["bitwise comparison between executions of the same code on the same machine",
                        "the generator is observed through numpy.random.seed/shuffle/random, the only entry points molgri uses"]
    ctx.model("GridLife", ctx.cfg("gl.cfg", cfg_text("SmallSpecs", ["array", "volumes"], 2)), workers=12, coverage_required=["Create", "Get", "UserSeed", "UserDraw", "Drop"],
              note="3 specs x 2 getters x 2 live objects x user seeds/draws: all interleavings")
    ctx.mutant("GridLife", ctx.cfg("gl_m1.cfg", cfg_text("SmallSpecs", ["array"], 2, "unseededRandom", ["Reproducible"], [])), "Reproducible")
    ctx.mutant("GridLife", ctx.cfg("gl_m2.cfg", cfg_text("SmallSpecs", ["array"], 1, "getterDraws", ["GetterValueFixed"], [])), "GetterValueFixed")
    # reference digests from two fresh processes (they must agree with each other, too)
    getters = GETTERS
    ref1 = fresh_reference(POOL, getters, str(ctx.scratch), 1)
    ref2 = fresh_reference(list(reversed(POOL)), list(reversed(getters)), str(ctx.scratch), 2)
    ids = Ids()
    events = []
    for key, d in sorted(ref1.items()):
        events.append(dict(ev="Fresh", alg=key[0], n=key[1], what=key[2], digest=ids(d)))
        if ref2.get(key) != d:
            ctx.violation(f"fresh processes disagree on {key[0]}_{key[1]} {key[2]}", dict(key=list(key), a=d, b=ref2.get(key)))
    # behaviours from the model
    g = ", ".join(f'"{x}"' for x in getters)
    sim_cfg = ctx.cfg("gl_sim.cfg", f"SPECIFICATION Spec\nCONSTANTS\n  Specs <- PoolSpecs\n  Getters = {{{g}}}\n  MaxObjs = 3\n  MaxDraws = 3\n"
                                    f"  UserSeeds = {{7, 15, 0, 1}}\n  Bug = \"none\"\n")
    behaviours = ctx.simulate("GridLife", sim_cfg, num=(150 if thorough else 30), depth=(14 if thorough else 10))
    if not behaviours:
        raise MachineryError("TLC -simulate produced no behaviour")
    ev2 = execute(behaviours, ids)
    undisciplined = 0
    for e in ev2:
        r = e.get("rng", [])
        for i, x in enumerate(r):
            if x[0] in ("shuffle", "random") and not (i > 0 and r[i - 1][0] == "seed"):
                undisciplined += 1
    ctx.cov["advisory_draws_without_preceding_reseed"] = undisciplined
    for e in ev2:
        if e["ev"] in ("Create", "Get"):
            ctx.count(1, nontrivial_key=(e["beh"], e["alg"], e["n"], e.get("what", "create"), len(events)))
        events.append(e)
    # prefix relation
    plan = {"ico": list(range(1, 46)) + [98, 162, 163], "cube3D": list(range(1, 30)) + [98, 99], "cube4D": list(range(1, 13)) + [40],
            "randomS": [3, 6, 30], "randomQ": [3, 6, 20]}
    if thorough:
        plan = {"ico": list(range(1, 164)) + [300, 642, 643], "cube3D": list(range(1, 100)) + [386, 387], "cube4D": list(range(1, 42)) + [80, 272],
                "randomS": [3, 6, 30, 100], "randomQ": [3, 6, 20, 50]}
    # random grids are NOT prefix-related by the statement (only polytope algorithms): keep them out of the Rows events
    plan = {k: v for k, v in plan.items() if k in ("ico", "cube3D", "cube4D")}
    events += prefix_events({}, plan)
    for i, e in enumerate(events):
        e["tid"] = i
    rejects = ctx.validate("GridLife_Trace", "GridLife_Trace.cfg", events, name="gridlife", count_traces=len(behaviours), timeout=1800)
    for tid, clause, _ in rejects:
        e = events[tid]
        if e["ev"] == "Rows":
            key = f"{e['alg']} N={e['n']}: {clause}"
        else:
            hist = [x for x in events if x.get("beh") == e.get("beh") and x["tid"] <= tid]
            short = " ; ".join((f"{h['ev']}({h.get('alg', '')}{'_' + str(h['n']) if 'n' in h else ''}{',' + h['what'] if 'what' in h else ''})" if h["ev"] in ("Create", "Get")
                                else h["ev"] + (f"({h['s']})" if "s" in h else "")) for h in hist)
            key = f"{short}: {clause}"
        ctx.violation(key, dict(event={k: v for k, v in e.items() if k not in ("ids", "poly")}, clause=clause))
    ctx.sample(dict(behaviour=[(n, str(a)) for n, a, _ in behaviours[0]]))
    ctx.sample([{k: v for k, v in e.items() if k != "tid"} for e in ev2[:4]])
