"""G05 (growth; workflows run_sqra / scripts/generate_pt) — the pseudotrajectory THROUGH FILES as a trace of Molgri.tla:
BuildGrid -> Write(array) [GridWriter.save_full_grid] -> Read(array) + GenPT [PtWriter(...) loads the grid file and builds
the pseudotrajectory] -> Write(pt) [write_full_pt: one trajectory file + structure, or write_full_pt_in_directory: one
file per frame] -> Read(pt) [TwoMoleculeReader / one reader per frame file] -> CheckPT: one frame per grid row in row
order, every atom at the rigid placement the row prescribes (format precision), molecule 1 at rest, the reader's
second-molecule selection, the structure file = frame 0.
Both molecule files are uncentred with different centres and different atom counts."""
from __future__ import annotations

import random

import numpy as np

from ..core import Ctx, quiet
from .c10 import rot_spec_formula, MOLS, UNIT

FORMATS = {   # trajectory extension -> (structure extension, precision of the format in 1e-3 Angstrom, incl. float32)
    "xtc": ("gro", 12), "xyz": ("gro", 2), "trr": ("gro", 2), "dir-xyz": ("gro", 2), "dir-gro": ("gro", 12),     # (MDAnalysis has no multi-frame gro writer)
}


def write_mol(path, element, coords, off):
    cc = np.array(coords, dtype=float) * UNIT + np.array(off, dtype=float)
    with open(path, "w") as f:
        f.write(f"{len(cc)}\nmolecule\n" + "".join(f"{element} {x:.6f} {y:.6f} {z:.6f}\n" for x, y, z in cc))
    ref = np.array(coords, dtype=float) * UNIT
    return ref - ref.mean(axis=0)


def pipeline(tid, spec, fmt, mols, d, events):
    import MDAnalysis as mda
    from molgri.io import GridWriter, PtWriter, TwoMoleculeReader
    b, o, t = spec
    ev = lambda name, **kw: events.append(dict(tid=tid, ev=name, err="", **kw))
    fail = lambda name, ex, **kw: events.append(dict(tid=tid, ev=name, err=type(ex).__name__, **kw))
    (n1, off1), (n2, off2) = mols
    p1, p2 = str(d / f"m1_{tid}.xyz"), str(d / f"m2_{tid}.xyz")
    ref1 = write_mol(p1, MOLS[n1][0], MOLS[n1][1], off1)
    ref2 = write_mol(p2, MOLS[n2][0], MOLS[n2][1], off2)
    gpath = str(d / f"grid_{tid}.npy")
    if tid > 0:
        ev("NewSpec")
    try:
        with quiet():
            gw = GridWriter(b, o, t)
        ev("BuildGrid")
    except Exception as ex:
        return fail("BuildGrid", ex)
    try:
        with quiet():
            gw.save_full_grid(gpath)
            arr = np.asarray(gw.fg.get_full_grid_as_array(), dtype=float)
        ev("Write", art="array", digest=1)
    except Exception as ex:
        return fail("Write", ex, art="array", digest=-1)
    try:
        with quiet():
            pw = PtWriter(p1, p2, cell_size_A=200.0, path_grid=gpath)
        ga = np.asarray(pw.grid_array, dtype=float)
        ev("Read", art="array", digest=1 if ga.shape == arr.shape and np.array_equal(ga, arr) else 2)
        with quiet():
            mem = np.array([pw.pt_universe.atoms.positions.copy() for _ in pw.pt_universe.trajectory])
        ev("GenPT")
    except Exception as ex:
        return fail("GenPT", ex)
    sext, tol3 = FORMATS[fmt]
    spath = str(d / f"structure_{tid}.{sext}")
    n = len(arr)
    try:
        with quiet():
            if fmt.startswith("dir-"):
                ext = fmt[4:]
                fd = d / f"frames_{tid}"
                fd.mkdir()
                paths = [str(fd / f"{k}.{ext}") for k in range(n)]
                pw.write_full_pt_in_directory(paths, spath, extension_trajectory=ext)
            else:
                tpath = str(d / f"pt_{tid}.{fmt}")
                pw.write_full_pt(tpath, spath)
        ev("Write", art="pt", digest=1)
    except Exception as ex:
        return fail("Write", ex, art="pt", digest=-1)
    chk = dict(tid=tid, ev="CheckPT", err="", nframes=0, want=int(n), dev3=0, m1dev3=0, tol3=int(tol3), selok=True, structok=True)
    try:
        with quiet():
            if fmt.startswith("dir-"):
                got = np.array([mda.Universe(p).atoms.positions.copy() for p in paths])
                sel = got[:, len(ref1):, :]
            else:
                rd = TwoMoleculeReader(spath, tpath)
                u = rd.get_full_pt()
                got = np.array([u.atoms.positions.copy() for _ in u.trajectory])
                ag = rd.get_only_second_molecule_pt(p2)
                sel = np.array([ag.positions.copy() for _ in u.trajectory])
            st = mda.Universe(spath).atoms.positions.copy()
        same = got.shape == mem.shape and bool(np.all(np.abs(got - mem) <= tol3 * 1e-3))
        ev("Read", art="pt", digest=1 if same else 2)
        chk["nframes"] = int(len(got))
        if len(got) == n and got.shape[1] == len(ref1) + len(ref2):
            want2 = np.array([(rot_spec_formula(row[3:]) @ ref2.T).T + row[:3] for row in arr])
            chk["dev3"] = int(np.ceil(np.max(np.abs(got[:, len(ref1):, :] - want2)) * 1e3))
            chk["m1dev3"] = int(np.ceil(np.max(np.abs(got[:, :len(ref1), :] - ref1[None, :, :])) * 1e3))
            chk["selok"] = bool(sel.shape == want2.shape and np.max(np.abs(sel - want2)) * 1e3 <= tol3)
            chk["structok"] = bool(st.shape == got[0].shape and np.max(np.abs(st - got[0])) * 1e3 <= 12 + tol3)       # the structure file is a .gro (0.01 A)
        else:
            chk["dev3"] = chk["m1dev3"] = 10 ** 6
    except Exception as ex:
        chk["err"] = type(ex).__name__
    events.append(chk)


def run(ctx: Ctx):
    rng = random.Random(ctx.seed)
    ctx.cov["rule"] = ("grid file -> PtWriter -> trajectory files (xtc / xyz / gro, single file or one file per frame) -> reader; every atom "
                       "of every frame against the placement prescribed by the grid row of the same index; non-trivial = distinct "
                       "(grid, format, molecules)")
    ctx.model("Molgri", "Molgri_quick.cfg", workers=8, note="pipeline model; pt is a persisted artefact in the full configuration")
    specs = [(("4", "5", "[0.2, 0.35]"), "xtc"), (("1", "7", "[0.2, 0.3, 0.45]"), "xyz"), (("randomQ_5", "cube3D_4", "[0.25]"), "dir-xyz"),
             (("cube4D_3", "1", "[0.3, 0.5]"), "trr"), (("8", "3", "[0.15, 0.3]"), "dir-gro")]
    if ctx.tier == "thorough":
        specs += [(("8", "12", "[0.2, 0.3, 0.4]"), "xtc"), (("12", "ico_12", "linspace(0.2, 0.6, 3)"), "dir-xyz"), (("5", "randomS_9", "[0.2, 0.5]"), "xyz")]
    names = ["generic4", "planar3", "five", "linear2", "single"]
    d = ctx.scratch / "ptfiles"
    d.mkdir()
    events = []
    for tid, (spec, fmt) in enumerate(specs):
        n1, n2 = rng.choice(names), rng.choice(["generic4", "five", "planar3"])
        while len(MOLS[n1][1]) == len(MOLS[n2][1]):
            n1 = rng.choice(names)
        mols = ((n1, [rng.uniform(-9, 9) for _ in range(3)]), (n2, [rng.uniform(-9, 9) for _ in range(3)]))
        pipeline(tid, spec, fmt, mols, d, events)
        ctx.count(1, nontrivial_key=(spec, fmt))
    cfg = ctx.cfg("mt.cfg", f"SPECIFICATION TraceSpec\nCONSTANTS\n  Specs = {{{', '.join(str(i) for i in range(len(specs)))}}}\n  Bug = \"none\"\n"
                            "INVARIANT OneCellOrder\nINVARIANT DirectoriesArePure\nINVARIANT MemoryIsCurrent\nINVARIANT ReadIsWriteAndRateConsistent\n"
                            "POSTCONDITION AllConsumed\n")
    rejects = ctx.validate("Molgri_Trace", cfg, events, name="pt_files", count_traces=len(specs))
    for tid, clause, k in rejects:
        ctx.violation(f"pseudotrajectory files grid={specs[tid][0]} format={specs[tid][1]}: {clause}",
                      dict(clause=clause, event=events[k - 1]))
    ctx.sample([e for e in events if e["tid"] == 0])
    import shutil
    shutil.rmtree(d, ignore_errors=True)
