"""G14 (growth) — the SIZE VIEWS of one FullGrid object are projections of one (rotations, directions, radii) triple.
Model: spec/FullViews.tla (a history of Ask(view) steps in any order on one memoising object; OneTriple,
AnswersAreProjections, AnswersAreStable; two negative configurations).  C->S: real FullGrids, every accessor that
reports a size - defined on FullGrid, forwarded to PositionGrid through __getattr__, on the component grids, and the
workflow's ParameterReader on the parameter file the grid was requested from - asked in a seeded random order, a third
of them a second time later in the history; one event per call, validated by FullViews_Trace against the state (the
answers so far) the earlier calls left."""
from __future__ import annotations

import random

import numpy as np

from ..core import Ctx, quiet

SPECS = [  # (b, o, t, nB, nO, nT)
    ("8", "12", "[0.2, 0.3]", 8, 12, 2), ("1", "7", "[0.2]", 1, 7, 1), ("zero", "ico_5", "linspace(0.1, 0.5, 3)", 1, 5, 3),
    ("cube4D_9", "1", "[0.3, 0.5]", 9, 1, 2), ("2", "cube3D_6", "[0.1, 0.2]", 2, 6, 2), ("randomQ_5", "zero", "[0.2]", 5, 1, 1),
    ("3", "randomS_8", "range(0.1, 0.45, 0.1)", 3, 8, 4), ("cube4D_12", "ico_12", "[0.15, 0.3, 0.45]", 12, 12, 3),
]
THOROUGH = [("16", "20", "linspace(0.2, 1, 5)", 16, 20, 5), ("randomQ_7", "cube3D_9", "[0.2, 0.4]", 7, 9, 2), ("40", "42", "[0.3]", 40, 42, 1),
            ("cube4D_8", "randomS_5", "[0.1, 0.2, 0.3, 0.4, 0.5, 0.6]", 8, 5, 6), ("6", "ico_7", "[0.25, 0.5]", 6, 7, 2)]


def views(fg, ypath):
    from molgri.io import ParameterReader

    def body_rot():
        q = np.atleast_2d(fg.get_body_rotations().as_quat())
        g = np.atleast_2d(fg.b_rotations.get_grid_as_array())
        if len(q) != len(g):
            return -2
        return int(sum(bool(np.allclose(q[i], g[i], atol=1e-9) or np.allclose(q[i], -g[i], atol=1e-9)) for i in range(len(g))))

    yaml_sizes = lambda: ParameterReader(ypath).get_grid_size_params_als_dict()
    return {
        "len": lambda: len(fg), "bN": fg.get_b_N, "oN": fg.get_o_N, "tN": fg.get_t_N,
        "posLen": lambda: len(fg.get_position_grid()), "radii": lambda: len(fg.get_radii()), "between": lambda: len(fg.get_between_radii()),
        "volumes": lambda: len(fg.get_total_volumes()), "rows": lambda: fg.get_full_grid_as_array().shape[0],
        "posRows": lambda: fg.get_position_grid_as_array().shape[0], "bodyRot": body_rot,
        "upperB": lambda: len(fg.b_rotations.get_upper_indices()), "tgrid": lambda: fg.get_t_grid().get_N_trans(),
        "ogrid": lambda: fg.get_o_grid().get_N(), "posVol": lambda: len(fg.get_all_position_volumes()),
        "adjB": lambda: fg.get_adjacency_of_orientation_grid().shape[0],
        "yamlO": lambda: yaml_sizes()[0], "yamlB": lambda: yaml_sizes()[1], "yamlT": lambda: yaml_sizes()[2],
    }


def history(tid, spec, rng, d, events):
    from molgri.space.fullgrid import FullGrid
    b, o, t, nb, no, nt = spec
    ypath = str(d / f"params_{tid}.yaml")
    with open(ypath, "w") as f:     # the parameter file of the workflows (run_grid builds FullGrid(str(num_orientations), str(num_directions), radial...))
        f.write(f"params_grid:\n  num_orientations: {nb}\n  num_directions: {no}\n  radial_distances_nm: '{t}'\n  position_grid_is_cartesian: False\n")
    try:
        with quiet():
            fg = FullGrid(b, o, t)
        events.append(dict(tid=tid, op="new", b=nb, o=no, t=nt, v="", val=0, err=""))
    except Exception as ex:
        events.append(dict(tid=tid, op="new", b=nb, o=no, t=nt, v="", val=0, err=type(ex).__name__))
        return
    vs = views(fg, ypath)
    order = list(vs)
    rng.shuffle(order)
    again = rng.sample(order, len(order) // 3)
    rng.shuffle(again)
    for v in order + again:
        try:
            with quiet():
                val = int(vs[v]())
            events.append(dict(tid=tid, op="ask", b=0, o=0, t=0, v=v, val=val, err=""))
        except Exception as ex:
            events.append(dict(tid=tid, op="ask", b=0, o=0, t=0, v=v, val=-1, err=type(ex).__name__))


def run(ctx: Ctx):
    rng = random.Random(ctx.seed)
    ctx.cov["rule"] = ("real FullGrids (all algorithm families, sizes 1..42, 1..6 radii): 19 size accessors in a seeded random order, a third asked "
                       "again later; non-trivial = distinct (grid, order)")
    cfg = ("SPECIFICATION Spec\nCONSTANTS\n  MaxB = 2\n  MaxO = 2\n  MaxT = 2\n  Views = {{\"len\", \"bN\", \"oN\", \"tN\", \"posLen\", \"rows\", \"posRows\"}}\n"
           "  Bug = \"{b}\"\nINVARIANT OneTriple\nINVARIANT AnswersAreProjections\nPROPERTY AnswersAreStable\nCHECK_DEADLOCK FALSE\n")
    ctx.model("FullViews", ctx.cfg("fv.cfg", cfg.format(b="none")), workers=4, note="all orders of 7 views on all triples up to 2 x 2 x 2")
    only = lambda bug, inv: cfg.format(b=bug).replace("INVARIANT OneTriple\nINVARIANT AnswersAreProjections\nPROPERTY AnswersAreStable\n", f"INVARIANT {inv}\n")
    ctx.mutant("FullViews", ctx.cfg("fv_m1.cfg", only("lenForwarded", "OneTriple")), "OneTriple")
    ctx.mutant("FullViews", ctx.cfg("fv_m2.cfg", only("sharedMemo", "OneTriple")), "OneTriple")
    ctx.mutant("FullViews", ctx.cfg("fv_m3.cfg", only("sharedMemo", "AnswersAreProjections")), "AnswersAreProjections")
    specs = SPECS + (THOROUGH if ctx.tier == "thorough" else [])
    reps = 3 if ctx.tier == "thorough" else 1
    d = ctx.scratch / "views"
    d.mkdir()
    events, meta = [], []
    for rep in range(reps):
        for spec in specs:
            tid = len(meta)
            history(tid, spec, rng, d, events)
            meta.append(spec)
            ctx.count(1, nontrivial_key=(spec[:3], rep))
    cfgt = ctx.cfg("fvt.cfg", "SPECIFICATION Spec\nPOSTCONDITION AllConsumed\n")
    for tid, clause, k in ctx.validate("FullViews_Trace", cfgt, events, name="fullviews", count_traces=len(meta)):
        s = meta[tid]
        ctx.violation(f"FullGrid(b='{s[0]}', o='{s[1]}', t='{s[2]}') size views: {clause}", dict(clause=clause, event=events[k - 1] if k else None,
                                                                                                history=[e for e in events if e["tid"] == tid]))
    ctx.sample([e for e in events if e["tid"] == 0][:8])
