"""C20 — persisted grids and energy tables are read back value- and order-exact.

Models: spec/Xvg.tla (line-oriented reader model, all header layouts) and spec/Persist.tla (artefact
store).  Conformance: xvg files materialised for many layouts inside (and outside) the envelope and
read by the real EnergyReader (Xvg_Trace); GridWriter / GridReader and the run_grid recipe's calls on
real small grids (Persist_Trace)."""
from __future__ import annotations

import hashlib
import os
import random
import shutil

import numpy as np
from scipy import sparse

from ..core import Ctx, quiet
from ..project import digest

WORDS = ["LJ (SR)", "Disper. corr.", "Coulomb (SR)", "Potential", "Kinetic En.", "Total Energy", "Pres. DC (bar)",
         "Temperature", "Coul. recip.", "Constr. rmsd", "Bond", "Angle", "s5 legend", "#hash", "a,b",
         # whitespace inside a legend is part of its text: runs of blanks, a tab, blanks at the edges, a non-breaking space
         "Coul-SR:  Protein-SOL", "LJ-14\tProtein", " padded ", "Pres.\u00a0DC", "x   y z", "@ s1 legend", "s0"]


def xvg_cfg(maxleg, maxrows, bug="none", invs=("ReaderCorrectInEnvelope", "TooManyHashGivesGarbage", "ShortHeaderLosesRows")):
    return (f"SPECIFICATION Spec\nCONSTANTS\n  MaxHash = 14\n  MaxAt = 14\n  MaxLegends = {maxleg}\n  MaxRows = {maxrows}\n"
            f"  Bug = \"{bug}\"\n" + "".join(f"INVARIANT {i}\n" for i in invs))


def make_file(path, nh, at_kinds, texts, rows):
    """at_kinds: list of 'at' or legend number; returns the line records for the spec"""
    lines, recs = [], []
    for j in range(nh):
        lines.append("# GROMACS header line %d" % j if j % 3 else "#")
        recs.append(dict(k="hash"))
    plain = ['@    title "GROMACS Energies"', '@    xaxis  label "Time (ps)"', "@TYPE xy", "@ view 0.15, 0.15, 0.75, 0.85",
             "@ legend on", "@ legend box on", "@ legend loctype view", "@ legend 0.78, 0.8", "@ legend length 2"]
    for j, kd in enumerate(at_kinds):
        if kd == "at":
            lines.append(plain[j % len(plain)])
            recs.append(dict(k="at"))
        else:
            lines.append(f'@ s{kd} legend "{texts[kd]}"')
            recs.append(dict(k="legend", i=int(kd), text=texts[kd]))
    for row in rows:
        lines.append("".join("%15.6f" % (v / 1e6) for v in row))
        recs.append(dict(k="data", row=[int(v) for v in row]))
    with open(path, "w") as f:
        f.write("\n".join(lines) + "\n")
    return recs


def read_back(path, texts, rng):
    from molgri.io import EnergyReader
    out = dict(names=[], rows=[], single=dict(col="Time [ps]", values=[]), csvEqual=True, exact=True, err="")
    try:
        with quiet():
            reader = EnergyReader(path)
            # a history on ONE reader object: a table and a column are taken, the caller shifts the returned column in place
            # (e.g. `pot -= pot.min()`) and sorts the returned frame in place; the next load must still be the file's content
            first = reader.load_energy()
            if len(first.columns):
                colname = str(first.columns[-1])
                colarr = reader.load_single_energy_column(colname)
                try:
                    colarr -= 12345.0
                    first.sort_values(by=colname, inplace=True, ascending=False)
                except Exception:
                    pass
            df = reader.load_energy()
        out["names"] = [str(c) for c in df.columns]
        vals = df.to_numpy(dtype=float) * 1e6 if len(df.columns) else np.zeros((0, 0))
        if vals.size and not np.all(np.isfinite(vals)):
            out["exact"] = False
            vals = np.nan_to_num(vals)
        R = np.round(vals)
        out["exact"] = out["exact"] and bool(np.all(np.abs(vals - R) < 1e-3))
        out["rows"] = [[int(v) for v in row] for row in R.tolist()]
        col = rng.choice(out["names"]) if out["names"] else "Time [ps]"
        with quiet():
            sc = EnergyReader(path).load_single_energy_column(col)
        out["single"] = dict(col=col, values=[int(v) for v in np.round(np.asarray(sc, dtype=float) * 1e6).tolist()])
        csv = path[:-4] + ".csv"
        df.to_csv(csv)
        with quiet():
            df2 = EnergyReader(csv).load_energy()
        out["csvEqual"] = bool(list(df2.columns) == list(df.columns) and df2.shape == df.shape
                               and np.array_equal(df2.to_numpy(dtype=float), df.to_numpy(dtype=float), equal_nan=True)
                               and list(df2.index) == list(df.index))
    except Exception as ex:
        out["err"] = type(ex).__name__
    return out


def xvg_part(ctx: Ctx, rng, thorough):
    ctx.model("Xvg", ctx.cfg("xvg.cfg", xvg_cfg(3 if thorough else 2, 2 if thorough else 1)), workers=16, timeout=1500,
              note="all header layouts: '#' 0..14, '@' 0..14, legends anywhere among the '@' lines")
    ctx.mutant("Xvg", ctx.cfg("xvg_m1.cfg", xvg_cfg(1, 1, "skip14", ["ReaderCorrectInEnvelope"])), "ReaderCorrectInEnvelope")
    d = ctx.scratch / "xvg"
    d.mkdir()
    recs = []
    nfiles = 1500 if thorough else 350
    for t in range(nfiles):
        nleg = rng.randint(1, 10)
        nh = rng.randint(0, 13)
        na = max(nleg, 13 - nh) + rng.randint(0, 4)
        if rng.random() < 0.1:      # outside the envelope: recorded, accepted by the spec whatever happens
            nh = rng.choice([14, 15])
        pos = sorted(rng.sample(range(na), nleg))
        at_kinds = ["at"] * na
        for num, p in enumerate(pos):
            at_kinds[p] = num
        texts = rng.sample(WORDS, nleg)
        nrows = rng.choice([0, 1, 2, 5, 40])
        rows = [[rng.randrange(-10 ** 9, 10 ** 9) for _ in range(nleg + 1)] for _ in range(nrows)]
        path = str(d / f"e{t}.xvg")
        lines = make_file(path, nh, at_kinds, texts, rows)
        rec = dict(lines=lines, layout=dict(nh=nh, na=na, legends=pos, nrows=nrows))
        rec.update(read_back(path, texts, rng))
        recs.append(rec)
        ctx.count(1, nontrivial_key=("xvg", nh, na, tuple(pos), nrows) if nrows else None)
    # the shipped GROMACS example
    ex = os.environ.get("VERIF_REPO", "/repo") + "/molgri/examples/H2O_H2O_o_ico_500_b_ico_5_t_3830884671.xvg"
    if os.path.exists(ex) and os.path.getsize(ex) > 0:
        lines = []
        for ln in open(ex).read().splitlines()[:60]:
            if ln.startswith("#"):
                lines.append(dict(k="hash"))
            elif ln.startswith("@ s") and "legend" in ln:
                lines.append(dict(k="legend", i=int(ln.split()[1][1:]), text=ln.split('"')[-2]))
            elif ln.startswith("@"):
                lines.append(dict(k="at"))
            else:
                lines.append(dict(k="data", row=[int(round(float(x) * 1e6)) for x in ln.split()]))
        p2 = str(d / "example.xvg")
        with open(p2, "w") as f:
            f.write("\n".join(open(ex).read().splitlines()[:60]) + "\n")
        rec = dict(lines=lines, layout="shipped GROMACS example (first 60 lines)")
        rec.update(read_back(p2, None, rng))
        recs.append(rec)
    for i, r in enumerate(recs):
        r["tid"] = i
    rejects = ctx.validate("Xvg_Trace", "Xvg_Trace.cfg", recs, name="xvg_trace")
    for tid, clause, _ in rejects:
        r = recs[tid]
        ctx.violation(f"xvg layout {r['layout']}: {clause}", dict(layout=r["layout"], clause=clause,
                                                                 names=r["names"], err=r["err"], lines=r["lines"][:40]))
    ctx.sample(dict(xvg=dict(layout=recs[0]["layout"], names=recs[0]["names"], first_row=recs[0]["rows"][:1])))
    shutil.rmtree(d, ignore_errors=True)


# ------------------------------------------------------------------------------------------------

class Interner:
    def __init__(self):
        self.ids = {}

    def __call__(self, h):
        return self.ids.setdefault(h, len(self.ids))


def content(obj, it):
    """(digest id, shape, order id) of an array / sparse artefact"""
    if sparse.issparse(obj):
        fmt = obj.format
        if fmt == "coo":
            order = digest(np.asarray(obj.row)) + digest(np.asarray(obj.col))
        else:
            order = digest(np.asarray(obj.indptr)) + digest(np.asarray(obj.indices))
        vals = digest(np.asarray(obj.data))
        return it(fmt + order + vals), [int(s) for s in obj.shape], it("order" + fmt + order)
    a = np.asarray(obj)
    return it(digest(a)), [int(s) for s in a.shape], it("dense")


def grid_part(ctx: Ctx, rng, thorough):
    from molgri.io import GridWriter, GridReader
    ctx.model("Persist", "Persist.cfg", note="artefact store: a read returns the last write")
    ctx.mutant("Persist", ctx.cfg("p_m1.cfg", "SPECIFICATION Spec\nCONSTANTS\n  Arts = {\"borders\", \"distances\"}\n  Digests = {1, 2}\n  Bug = \"readStale\"\nCONSTRAINT Bounded\nPROPERTY ReadIsWrite\n"), "ReadIsWrite")
    d = ctx.scratch / "grids"
    d.mkdir()
    it = Interner()
    grids = [("12", "4", "[0.2, 0.3]", False), ("1", "1", "[0.2]", False), ("1", "4", "[0.2, 0.3]", False), ("2", "3", "[0.1, 0.2, 0.4]", False),
             ("4", "5", "[0.2, 0.35]", False), ("5", "4", "[0.2, 0.3]", True), ("8", "7", "linspace(0.2, 0.4, 3)", False)]
    if thorough:
        grids += [("randomQ_6", "randomS_9", "[0.15, 0.3]", False), ("cube4D_9", "cube3D_9", "[0.2, 0.3, 0.45]", True),
                  ("12", "12", "range(0.2, 0.5, 0.1)", False), ("3", "1", "[0.3]", False), ("1", "12", "[0.2, 0.3]", True)]
    evs = []
    names = dict(array="full_array.npy", volumes="volumes.npy", adjacency="adjacency_array.npz",
                 borders="borders_array.npz", distances="distances_array.npz")
    for tid, (b, o, t, cart) in enumerate(grids):
        gd = d / f"g{tid}"
        gd.mkdir()
        paths = {k: str(gd / v) for k, v in names.items()}
        try:
            with quiet():
                w = GridWriter(b, o, t, position_grid_cartesian=cart)
        except Exception as ex:
            evs.append(dict(tid=tid, ev="write", art="array", digest=-1, shape=[], order=-1, err=type(ex).__name__))
            continue
        fg = w.fg
        getters = dict(array=fg.get_full_grid_as_array, volumes=fg.get_total_volumes, adjacency=fg.get_full_adjacency,
                       borders=fg.get_full_borders, distances=fg.get_full_distances)
        savers = dict(array=w.save_full_grid, volumes=w.save_volumes, adjacency=w.save_adjacency_array,
                      borders=w.save_borders_array, distances=w.save_distances_array)
        rd = GridReader()
        loaders = dict(array=rd.load_full_grid, volumes=rd.load_volumes, adjacency=rd.load_adjacency_array,
                       borders=rd.load_borders_array, distances=rd.load_distances_array)
        for art in rng.sample(list(names), 5):
            e = dict(tid=tid, ev="write", art=art, digest=-1, shape=[], order=-1, err="")
            try:
                with quiet():
                    obj = getters[art]()
                    savers[art](paths[art])
                e["digest"], e["shape"], e["order"] = content(np.asarray(obj) if not sparse.issparse(obj) else obj, it)
            except Exception as ex:
                e["err"] = type(ex).__name__
            evs.append(e)
        for art in rng.sample(list(names), 5) + [rng.choice(list(names))]:
            e = dict(tid=tid, ev="read", art=art, digest=-1, shape=[], order=-1, err="")
            try:
                with quiet():
                    obj = loaders[art](paths[art])
                e["digest"], e["shape"], e["order"] = content(obj, it)
            except Exception as ex:
                e["err"] = type(ex).__name__
            evs.append(e)
        ctx.count(1, nontrivial_key=("grid", b, o, t, cart))
    rejects = ctx.validate("Persist_Trace", "Persist_Trace.cfg", evs, name="persist", count_traces=len(grids))
    for tid, clause, k in rejects:
        b, o, t, cart = grids[tid]
        ctx.violation(f"GridWriter/GridReader b={b} o={o} t={t} cartesian={cart}: {clause}", dict(grid=grids[tid], clause=clause, event=evs[k - 1]))
    ctx.sample(dict(grid=grids[3], events=evs[30:34]))
    shutil.rmtree(d, ignore_errors=True)


def run(ctx: Ctx):
    thorough = ctx.tier == "thorough"
    rng = random.Random(ctx.seed)
    ctx.cov["rule"] = ("xvg files for random header layouts inside the GROMACS envelope ('#' 0..13, header >= 13, 1..10 legends "
                       "at any '@' positions, legend texts incl. spaces/dots/brackets, 0..40 rows of random 6-decimal values) "
                       "read by the real EnergyReader; GridWriter -> files -> GridReader on small grids of all shapes; "
                       "non-trivial = file with at least one data row / distinct grid")
    ctx.assumptions += ["energy values carry at most 6 decimals (as GROMACS writes them); read-back compared at 1e-9 absolute"]
    xvg_part(ctx, rng, thorough)
    grid_part(ctx, rng, thorough)
