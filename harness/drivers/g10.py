"""G10 (growth) — the identifier of a full grid and its way back: FullGrid.get_name() -> naming.FullGridNameParser ->
standard full name -> parsed again.  Model: spec/FullName.tla (marker tokens, two tokens after b / o through the C17
normalisation, fixed point); C->S on real FullGrids of all algorithm combinations with sizes from the spec's token pool."""
from __future__ import annotations

import itertools

from ..core import Ctx, quiet


def std_of(name):
    parts = name.split("_")
    if len(parts) == 2 and parts[1].lstrip("-").isdigit():
        return dict(kind="Std", alg=parts[0], n=int(parts[1]))
    return dict(kind="ValueError", alg="", n=0)


def record(b, o, t):
    from molgri.space.fullgrid import FullGrid
    from molgri.naming import FullGridNameParser
    rec = dict(b=b, o=o, t=t, name=[], pb=dict(kind="ValueError", alg="", n=0), po=dict(kind="ValueError", alg="", n=0), pt="", nb=-1, no=-1,
               realb=-2, realo=-2, std=[], restd=[], err="")
    try:
        with quiet():
            fg = FullGrid(b, o, t)
            name = fg.get_name()
            p = FullGridNameParser(name)
            rec["name"] = name.split("_")
            rec["pb"], rec["po"], rec["pt"] = std_of(p.b_grid_name), std_of(p.o_grid_name), str(p.t_grid_name)
            rec["nb"], rec["no"] = int(p.get_num_b_rot()), int(p.get_num_o_rot())
            rec["realb"], rec["realo"] = int(fg.get_b_N()), int(len(fg.get_position_grid().get_o_grid().get_grid_as_array()))
            std = p.get_standard_full_grid_name()
            rec["std"] = std.split("_")
            rec["restd"] = FullGridNameParser(std).get_standard_full_grid_name().split("_")
    except Exception as ex:
        rec["err"] = type(ex).__name__
    return rec


def run(ctx: Ctx):
    ctx.cov["rule"] = "real FullGrids: rotation algorithms x direction algorithms x sizes {1, 2, 7, 15} x two radial grids; non-trivial = distinct grid"
    cfg = "SPECIFICATION Spec\nCONSTANTS\n  Hashes = {{\"h1\", \"h2\"}}\n  Bug = \"{b}\"\nINVARIANT RoundTrip\nINVARIANT StandardIsFixedPoint\nCHECK_DEADLOCK FALSE\n"
    ctx.model("FullName", ctx.cfg("fn.cfg", cfg.format(b="none")), workers=4, note="all pairs of standard grid names x hashes")
    ctx.mutant("FullName", ctx.cfg("fn_m1.cfg", cfg.format(b="rolesSwapped")), "RoundTrip")
    ctx.mutant("FullName", ctx.cfg("fn_m2.cfg", cfg.format(b="oneTokenAfterMarker")), "RoundTrip")
    balgs, oalgs = ["", "cube4D_", "randomQ_"], ["", "ico_", "cube3D_", "randomS_"]
    sizes = [1, 2, 7, 15]
    recs = []
    for k, (ba, oa, nb, no) in enumerate(itertools.product(balgs, oalgs, sizes, sizes)):
        if ctx.tier != "thorough" and k % 4:
            continue
        recs.append(record(f"{ba}{nb}", f"{oa}{no}", "[0.2, 0.3]" if k % 2 else "linspace(0.1, 0.5, 3)"))
        ctx.count(1, nontrivial_key=(ba, oa, nb, no))
    for i, r in enumerate(recs):
        r["tid"] = i
    for tid, clause, _ in ctx.validate("FullName_Trace", "FullName_Trace.cfg", recs, name="fullname"):
        r = recs[tid]
        ctx.violation(f"FullGrid(b='{r['b']}', o='{r['o']}', t='{r['t']}') identifier {'_'.join(r['name'])}: {clause}", dict(record=r, clause=clause))
    ctx.sample(recs[1])
