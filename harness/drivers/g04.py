"""G04 (growth) — quaternion bookkeeping on the exact Hurwitz carrier.

Model: spec/Quat.tla (algebra of the 24 Hurwitz units in doubled integer coordinates + the life cycle
raw rows -> canonical half -> double cover).  C->S: the real helpers of molgri.space.utils, rotations and
rotobj.SphereGrid4Dim on ALL 24 units / all pairs / random row lists, one record per call."""
from __future__ import annotations

import itertools
import math
import random
import types

import numpy as np

from ..core import Ctx, quiet


def q24():
    out = []
    for q in itertools.product((-2, -1, 0, 1, 2), repeat=4):
        if sum(c * c for c in q) == 4:
            out.append(list(q))
    return out


def ints2(a):
    """twice the array as ints, and whether that is exact"""
    a = np.asarray(a, dtype=float) * 2
    r = np.round(a)
    return r.astype(int).tolist(), bool(np.all(np.abs(a - r) < 1e-9))


def ints1(a):
    a = np.asarray(a, dtype=float)
    r = np.round(a)
    return r.astype(int).tolist(), bool(np.all(np.abs(a - r) < 1e-9))


def call(rec, f):
    try:
        with quiet():
            f(rec)
    except Exception as ex:
        rec["err"] = type(ex).__name__
    return rec


def base(ev, **kw):
    d = dict(ev=ev, err="", exact=True, q=[0, 0, 0, 2], p=[0, 0, 0, 2], rows=[], a=[], b=[], x=[0, 0, 1], y=[0, 0, 1], arr=[], k=0,
             upper=True, out=0, out6=0, idx=[], **{"is": False})
    d.update(kw)
    return d


def run(ctx: Ctx):
    from molgri.space import utils as U
    from molgri.space import rotations as R
    from molgri.space.rotobj import SphereGrid4Dim
    thorough = ctx.tier == "thorough"
    rng = random.Random(ctx.seed)
    ctx.cov["rule"] = ("all 24 Hurwitz units, all 576 ordered pairs, all 36 pairs of axis vectors, random row lists of length 1..7 with "
                       "repeats and sign flips; non-trivial = distinct call")
    cfg = ("SPECIFICATION Spec\nCONSTANTS\n  MaxRows = 3\n  Bug = \"{bug}\"\nINVARIANT TypeOK\nINVARIANT HalfIsCanonical\n"
           "INVARIANT FullIsHalfThenNegatives\nINVARIANT EightCellsCover\nPROPERTY CanonicalisePreservesRotations\nCHECK_DEADLOCK FALSE\n")
    ctx.model("Quat", ctx.cfg("quat.cfg", cfg.format(bug="none")), workers=8, note="algebra on Q24 asserted in Init; grid life with <= 3 rows")
    for bug, inv in (("lastCoordinate", "HalfIsCanonical"), ("dedupe", "HalfIsCanonical"), ("coverInterleaved", "FullIsHalfThenNegatives")):
        ctx.mutant("Quat", ctx.cfg(f"quat_{bug}.cfg", cfg.format(bug=bug)), inv)
    Q = q24()
    f = lambda q: np.array(q, dtype=float) / 2
    recs = []

    for q in Q:
        recs.append(call(base("upper", q=q), lambda r: r.update(out=bool(U.q_in_upper_sphere(f(r["q"]))))))

        def inv(r):
            r["out"], r["exact"] = ints2(U.find_inverse_quaternion(f(r["q"])))
        recs.append(call(base("inverse", q=q, out=[0, 0, 0, 0]), inv))

        def q2g(r):
            g = R.quaternion2grid(f(r["q"])[np.newaxis, :])
            r["out"], r["exact"] = ints1([g[0][0], g[1][0], g[2][0]])
        recs.append(call(base("q2grid", q=q, out=[[0] * 3] * 3), q2g))

        def g2q(r):
            g = R.quaternion2grid(f(r["q"])[np.newaxis, :])
            r["out"], r["exact"] = ints2(R.grid2quaternion(*g)[0])
        recs.append(call(base("grid2q", q=q, out=[0, 0, 0, 0]), g2q))
    for p in Q:
        for q in Q:
            def dist(r):
                d = float(U.distance_between_quaternions(f(r["p"]), f(r["q"]))) * 6 / math.pi
                r["out6"], r["exact"] = int(round(d)), abs(d - round(d)) < 1e-6
            recs.append(call(base("dist", p=p, q=q), dist))
    axes = [[1, 0, 0], [-1, 0, 0], [0, 1, 0], [0, -1, 0], [0, 0, 1], [0, 0, -1]]
    for x in axes:
        for y in axes:
            def tv(r):
                r["out"], r["exact"] = ints1(R.two_vectors2rot(np.array(r["x"], dtype=float), np.array(r["y"], dtype=float)))
            recs.append(call(base("tv2r", x=x, y=y, out=[[0] * 3] * 3), tv))

    def rows(n):
        base_rows = [rng.choice(Q) for _ in range(n)]
        return [([-c for c in q] if rng.random() < 0.3 else q) if rng.random() < 0.7 else rng.choice(base_rows) for q in base_rows]
    for _ in range(400 if thorough else 120):
        rr = rows(rng.randint(1, 7))
        A = lambda s: np.array(s, dtype=float) / 2
        up = rng.random() < 0.5

        def hemi(r):
            r["out"], r["exact"] = ints2(U.hemisphere_quaternion_set(A(r["rows"]), upper=r["upper"]))
        recs.append(call(base("hemi", rows=rr, upper=up, out=[]), hemi))
        bb = [([-c for c in q] if rng.random() < 0.5 else q) if rng.random() < 0.85 else rng.choice(Q) for q in rr]
        recs.append(call(base("same", a=rr, b=bb, out=False), lambda r: r.update(out=bool(U.two_sets_of_quaternions_equal(A(r["a"]), A(r["b"]))))))
        q = rng.choice(rr + [rng.choice(Q)])
        q = [-c for c in q] if rng.random() < 0.5 else q
        recs.append(call(base("inarr", q=q, rows=rr, out=False), lambda r: r.update(out=bool(U.quaternion_in_array(f(r["q"]), A(r["rows"]))))))

        def rowk(r):
            r["idx"] = [int(i) for i in U.which_row_is_k(A(r["rows"]), f(r["q"]))]
            r["is"] = bool(U.k_is_a_row(A(r["rows"]), f(r["q"])))
        recs.append(call(base("rowk", q=q, rows=rr), rowk))

        def cells(r):
            _, ind = U.points4D_2_8cells(A(r["rows"]))
            r["out"] = [[int(i) for i in c] for c in ind]
        recs.append(call(base("cells8", rows=rr, out=[[]] * 8), cells))

        def cover(r):
            obj = types.SimpleNamespace(grid=U.hemisphere_quaternion_set(A(r["rows"])), N=len(r["rows"]))
            r["out"], r["exact"] = ints2(SphereGrid4Dim._gen_grid(obj))
        recs.append(call(base("cover", rows=rr, out=[]), cover))
        arr = [rng.randint(-5, 5) for _ in range(rng.randint(2, 9))]
        k = rng.randint(1, len(arr) - 1)
        recs.append(call(base("kmin", arr=arr, k=k, out=[]), lambda r: r.update(out=[int(i) for i in U.k_argmin_in_array(np.array(r["arr"], dtype=float), r["k"])])))
        recs.append(call(base("kmax", arr=arr, k=k, out=[]), lambda r: r.update(out=[int(i) for i in U.k_argmax_in_array(np.array(r["arr"], dtype=float), r["k"])])))
    for i, r in enumerate(recs):
        r["tid"] = i
        ctx.count(1, nontrivial_key=i)
    rejects = ctx.validate("Quat_Trace", "Quat_Trace.cfg", recs, name="quat", timeout=1800)
    for tid, clause, _ in rejects:
        r = recs[tid]
        ctx.violation(f"{r['ev']} q={r['q']} p={r['p']} rows={r['rows']} x={r['x']} y={r['y']} arr={r['arr']} k={r['k']}: {clause}",
                      dict(record=r, clause=clause))
    ctx.cov["events"] = {ev: sum(1 for r in recs if r["ev"] == ev) for ev in sorted({r["ev"] for r in recs})}
    ctx.sample(recs[5])
    ctx.sample(recs[-3])
