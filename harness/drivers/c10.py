"""C10 — pseudotrajectory frame k is the rigid placement prescribed by grid row k.

Model: spec/Rigid.tla (reset / rotate-about-COM / translate per row on ONE mutable molecule, integer
quaternions; accumulated state, transposed matrix and scalar-first convention as negative configs).
Conformance S->C: TLC as evaluator writes the expected coordinates of every atom of every frame for
non-grid arrays of rational unit quaternions and integer positions; the driver reads molecules through
the package's reader, builds the real Pseudotrajectory (both get_pt_as_universe and the generator) and
compares every atom (1e-4 A, float32 coordinates), frame count, atom order, names, molecule 1."""
from __future__ import annotations

import itertools
import random

import numpy as np

from ..core import Ctx, quiet, MachineryError

UNIT = 0.01      # Angstrom per integer unit

MOLS = {   # element, centred integer coordinates (sum to zero), units of 0.01 A
    "generic4": ("C", [(300, 100, 0), (-100, 200, 100), (-100, -100, 200), (-100, -200, -300)]),
    "planar3": ("N", [(120, 0, 0), (-60, 100, 0), (-60, -100, 0)]),
    "single": ("O", [(0, 0, 0)]),
    "linear2": ("C", [(0, 0, 70), (0, 0, -70)]),
    "five": ("C", [(150, 0, 0), (0, 150, 0), (0, 0, 150), (-100, -50, -50), (-50, -100, -100)]),
}


def cfg_text(bug="none", invs=("FramesAreRigidPlacements", "OneFramePerRow", "DistancesPreserved", "MatrixOrthogonal")):
    return f"SPECIFICATION Spec\nCONSTANTS\n  MaxFrames = 2\n  Bug = \"{bug}\"\n" + "".join(f"INVARIANT {i}\n" for i in invs)


def rational_quats(nmax=9):
    out = []
    for n in range(1, nmax + 1):
        for a, b, c in itertools.product(range(0, n + 1), repeat=3):
            d2 = n * n - a * a - b * b - c * c
            if d2 < 0:
                continue
            d = int(round(d2 ** 0.5))
            if d * d == d2:
                out.append((a, b, c, d))
    return sorted(set(out))


def write_xyz(path, element, coords):
    with open(path, "w") as f:
        f.write(f"{len(coords)}\nmolecule\n")
        for c in coords:
            f.write(f"{element} {c[0] * UNIT:.6f} {c[1] * UNIT:.6f} {c[2] * UNIT:.6f}\n")


def rot_spec_formula(q):
    """IntGeom!RotN2(q) / |q|^2 evaluated in floating point (scalar-last quaternion).  This transliteration of the
    spec's formula is itself checked on every rational row against what TLC computed (see `formula_bound`)."""
    x, y, z, w = [float(v) for v in q]
    n2 = x * x + y * y + z * z + w * w
    return np.array([[n2 - 2 * (y * y + z * z), 2 * (x * y - z * w), 2 * (x * z + y * w)],
                     [2 * (x * y + z * w), n2 - 2 * (x * x + z * z), 2 * (y * z - x * w)],
                     [2 * (x * z - y * w), 2 * (y * z + x * w), n2 - 2 * (x * x + y * y)]]) / n2


def run(ctx: Ctx):
    from molgri.io import OneMoleculeReader
    from molgri.molecules.pts import Pseudotrajectory
    thorough = ctx.tier == "thorough"
    rng = random.Random(ctx.seed)
    ctx.cov["rule"] = ("non-grid arrays of 60 (quick) / 300 (thorough) rows of rational unit quaternions (all integer 4-vectors with "
                       "square norm up to 9^2, random signs) and integer positions x five molecules (single atom, linear, planar, "
                       "two non-planar); every atom of every frame; non-trivial = distinct (molecule, row)")
    ctx.assumptions += ["coordinates compared at 1e-4 A (MDAnalysis stores float32)",
                        "molecules have one element and coordinates summing to zero, so the reader's centring is exact"]
    ctx.model("Rigid", ctx.cfg("rigid.cfg", cfg_text()), workers=8, note="grids of <= 2 rows from 5 quaternions x 3 positions")
    for bug in ("noReset", "transposed", "scalarFirst"):
        ctx.mutant("Rigid", ctx.cfg(f"rigid_{bug}.cfg", cfg_text(bug, ["FramesAreRigidPlacements"])), "FramesAreRigidPlacements")
    quats = rational_quats(9)
    nrows = 300 if thorough else 60
    d = ctx.scratch / "mol"
    d.mkdir()
    static_path = str(d / "m1.xyz")
    write_xyz(static_path, "O", [(0, 0, 12), (76, 0, -47), (-76, 0, -47)])
    # the first molecule varies too: water-shaped, a single atom (an ion), a non-planar one
    statics = [("O", [(0, 0, 12), (76, 0, -47), (-76, 0, -47)]), ("N", [(0, 0, 0)]), ("S", [(200, 0, 0), (-100, 150, 0), (-50, -100, 120), (-50, -50, -120)])]
    static_of = {}
    for i, name in enumerate(MOLS):
        sp = str(d / f"m1_{i % 3}.xyz")
        write_xyz(sp, *statics[i % 3])
        static_of[name] = (sp, statics[i % 3][0])
    cases, meta = [], []
    for name, (el, coords) in MOLS.items():
        rows = []
        for _ in range(nrows):
            q = list(rng.choice(quats))
            rng.shuffle(q)
            q = [x * rng.choice([-1, 1]) for x in q]
            p = [rng.randrange(-900, 900) for _ in range(3)]
            rows.append(dict(p=p, q=q))
        # a scan may return to an earlier pose: exactly repeated rows (adjacent and far apart) are rows like any other
        rows[5] = dict(rows[2])
        rows[6] = dict(rows[5])
        rows[-1] = dict(rows[0])
        cases.append(dict(ref=[list(c) for c in coords], rows=rows))
        meta.append((name, el, coords, rows))
    expect = ctx.evaluate("Rigid_Eval", cases, name="rigid")
    for (name, el, coords, rows), exp in zip(meta, expect):
        path = str(d / f"{name}.xyz")
        write_xyz(path, el, coords)
        arr = np.array([[r["p"][0] * UNIT, r["p"][1] * UNIT, r["p"][2] * UNIT] +
                        list(np.array(r["q"], dtype=float) / np.linalg.norm(r["q"])) for r in rows])
        key0 = f"Pseudotrajectory(molecule={name})"
        try:
            with quiet():
                m1 = OneMoleculeReader(static_of[name][0]).get_molecule()
                m2 = OneMoleculeReader(path).get_molecule()
                ref1 = m1.atoms.positions.copy()
                pt = Pseudotrajectory(m1, m2, arr)
                u = pt.get_pt_as_universe()
                frames = np.array([u.atoms.positions.copy() for _ in u.trajectory])
                names = [a.name for a in u.atoms]
                held = list(Pseudotrajectory(m1, m2, arr[:7]).generate_pseudotrajectory())     # frames are KEPT and read afterwards
                gen = [(i, uu.atoms.positions.copy()) for i, uu in held]
        except Exception as ex:
            ctx.violation(f"{key0}: exception {type(ex).__name__}", dict(molecule=name))
            continue
        n1, n2 = len(ref1), len(coords)
        bad = None
        if frames.shape != (len(rows), n1 + n2, 3):
            bad = f"frame array shape {frames.shape}, expected {(len(rows), n1 + n2, 3)}"
        elif names != [static_of[name][1]] * n1 + [el] * n2:
            bad = f"atom order / names {names}"
        else:
            for k, (fr, ex) in enumerate(zip(frames, exp)):
                want = np.array(ex["atoms"], dtype=float) / ex["den"] * UNIT
                mine = ((rot_spec_formula(rows[k]["q"]) @ np.array(coords, dtype=float).T).T + np.array(rows[k]["p"], dtype=float)) * UNIT
                if np.max(np.abs(mine - want)) > 1e-9:
                    raise MachineryError("the floating-point transliteration of the spec's rotation formula disagrees with TLC")
                if np.max(np.abs(fr[:n1] - ref1)) > 1e-4:
                    bad = f"frame {k}: molecule 1 moved"
                    break
                err = np.max(np.abs(fr[n1:] - want))
                if err > 1e-4:
                    bad = f"frame {k} (q={rows[k]['q']}, p={rows[k]['p']}): atom off by {err:.2e} A"
                    break
                d2 = np.sum((fr[n1:] - fr[n1]) ** 2, axis=1)
                if np.max(np.abs(d2 - np.array(ex["d2"], dtype=float) * UNIT ** 2)) > 2e-3:
                    bad = f"frame {k}: intramolecular distances changed"
                    break
                ctx.count(1, nontrivial_key=(name, k))
            if bad is None:
                for (i, pos), ex in zip(gen, exp):
                    want = np.array(ex["atoms"], dtype=float) / ex["den"] * UNIT
                    if i != gen[0][0] + gen.index((i, pos)) or np.max(np.abs(pos[n1:] - want)) > 1e-4:
                        bad = f"generator frame {i} differs from the prescribed placement"
                        break
        if bad:
            ctx.violation(f"{key0}: {bad.split(':')[0] if bad.startswith('frame') else bad}", dict(molecule=name, detail=bad))
    # rows with irrational quaternions: fine rotation scans (0.1 degree steps) and a real FullGrid array.  TLC's integers
    # cannot carry such small rational angles (|q|^2 ~ 1e10), so the expectation is the spec's formula in floating
    # point - the transliteration checked against TLC above on every rational row.
    from molgri.space.fullgrid import FullGrid
    with quiet():
        real_rows = np.asarray(FullGrid("8", "7", "[0.2, 0.35]").get_full_grid_as_array())
    scans = []
    for _ in range(4 if thorough else 2):
        axis = np.array([rng.gauss(0, 1) for _ in range(3)])
        axis /= np.linalg.norm(axis)
        a0 = rng.uniform(0, 3)
        for j in range(12):
            ang = a0 + j * np.radians(0.1)
            scans.append([rng.uniform(-5, 5), rng.uniform(-5, 5), rng.uniform(-5, 5)] + list(axis * np.sin(ang / 2)) + [np.cos(ang / 2)])
    # ... and a scan THROUGH the identity: rotations of -0.6 .. +0.6 degrees in 0.1 degree steps (cos(theta/2) is flat there: the scalar
    # part differs from 1 by less than 2e-5), in both signs of the quaternion, with the exact identity among them
    axis = np.array([rng.gauss(0, 1) for _ in range(3)])
    axis /= np.linalg.norm(axis)
    for j in range(-6, 7):
        ang = np.radians(0.1 * j)
        sgn = -1.0 if j % 3 == 0 else 1.0
        scans.append([rng.uniform(-5, 5), rng.uniform(-5, 5), rng.uniform(-5, 5)] + list(sgn * axis * np.sin(ang / 2)) + [sgn * np.cos(ang / 2)])
    for name, arr in (("scan", np.array(scans)), ("fullgrid_8_7", real_rows)):
        for molname in ("generic4", "five"):
            el, coords = MOLS[molname]
            path = str(d / f"{molname}.xyz")
            try:
                with quiet():
                    m1 = OneMoleculeReader(static_path).get_molecule()
                    m2 = OneMoleculeReader(path).get_molecule()
                    ref = m2.atoms.positions.astype(float).copy()
                    u = Pseudotrajectory(m1, m2, arr).get_pt_as_universe()
                    frames = np.array([u.atoms.positions.copy() for _ in u.trajectory])
            except Exception as ex:
                ctx.violation(f"Pseudotrajectory(molecule={molname}, rows={name}): exception {type(ex).__name__}", dict(rows=name))
                continue
            n1 = len(frames[0]) - len(ref)
            for k, row in enumerate(arr):
                want = (rot_spec_formula(row[3:]) @ ref.T).T + row[:3]
                err = float(np.max(np.abs(frames[k][n1:] - want))) if len(frames) == len(arr) else 1e9
                ctx.count(1, nontrivial_key=(name, molname, k))
                if err > 1e-4:
                    ctx.violation(f"Pseudotrajectory(molecule={molname}, rows={name}): frame {k} is not the placement of row {k}",
                                  dict(rows=name, frame=k, row=[float(v) for v in row], off_by_A=err))
                    break
    # the writer path (io.py: TwoMoleculeWriter / PtWriter): both molecule FILES are uncentred and have different centres;
    # the writer must centre each molecule at its own centre of mass before the pseudotrajectory is built
    from molgri.io import PtWriter
    off1, off2 = np.array([3.0, -2.0, 1.5]), np.array([-7.0, 4.0, 9.0])
    w1, w2 = str(d / "w1.xyz"), str(d / "w2.xyz")
    c1 = np.array([(0, 0, 12), (76, 0, -47), (-76, 0, -47)], dtype=float) * UNIT
    c2 = np.array(MOLS["generic4"][1], dtype=float) * UNIT
    for path, el, cc, off in ((w1, "O", c1, off1), (w2, "C", c2, off2)):
        with open(path, "w") as f:
            f.write(f"{len(cc)}\nmolecule\n" + "".join(f"{el} {x:.6f} {y:.6f} {z:.6f}\n" for x, y, z in cc + off))
    gpath = str(d / "grid.npy")
    np.save(gpath, np.array(scans[:10]))
    try:
        with quiet():
            pw = PtWriter(w1, w2, cell_size_A=100.0, path_grid=gpath)
            frames = np.array([pw.pt_universe.atoms.positions.copy() for _ in pw.pt_universe.trajectory])
        ref1 = c1 - c1.mean(axis=0)
        ref2 = c2 - c2.mean(axis=0)
        for k, row in enumerate(np.array(scans[:10])):
            want2 = (rot_spec_formula(row[3:]) @ ref2.T).T + row[:3]
            ctx.count(1, nontrivial_key=("ptwriter", k))
            if len(frames) != 10 or np.max(np.abs(frames[k][:3] - ref1)) > 1e-4 or np.max(np.abs(frames[k][3:] - want2)) > 1e-4:
                ctx.violation(f"PtWriter (uncentred molecule files): frame {k} is not the placement of row {k}", dict(frame=k, row=[float(v) for v in row]))
                break
    except Exception as ex:
        ctx.violation(f"PtWriter (uncentred molecule files): exception {type(ex).__name__}", dict())
    ctx.cov["traces_validated_against_impl"] += len(cases)
    ctx.sample(dict(molecule="generic4", row=meta[0][3][0], expected=expect[0][0]))
    import shutil
    shutil.rmtree(d, ignore_errors=True)
