"""G09 (growth) — the ORCA branch of ComputeEnergy: one .out file per pseudotrajectory frame, collected by
molgri.molecules.orca_runner.read_important_stuff_into_csv and read back by molgri.io.EnergyReader.
Model: spec/Orca.tla (last FINAL energy counts, anchored at the line start; a failed frame is a NaN ROW, never a missing
row; three negative configurations).  C->S: random .out files (several FINAL lines, indented look-alikes, none at all),
the csv read back through EnergyReader; also the ORCA input text of make_inp_file."""
from __future__ import annotations

import random

import numpy as np

from ..core import Ctx, quiet


def render(ln):
    v = ln["v"] * 1e-6
    if ln["kind"] == "final":
        return f"FINAL SINGLE POINT ENERGY     {v:.6f}\n"
    if ln["kind"] == "indent":
        return f"   FINAL SINGLE POINT ENERGY     {v:.6f}\n"
    if ln["kind"] == "time":
        return "TOTAL RUN TIME: 0 days 0 hours 1 minutes 2 seconds 345 msec\n"
    return random.Random(ln["v"]).choice(["junk line\n", "Total Energy       :  -76.1 Eh\n", "****ORCA TERMINATED NORMALLY****\n", "\n"])


def run(ctx: Ctx):
    from molgri.molecules import orca_runner as OR
    from molgri.io import EnergyReader
    rng = random.Random(ctx.seed)
    ctx.cov["rule"] = "random sets of 1..8 .out files with 0..3 FINAL lines, indented look-alikes and failed frames; non-trivial = a collection run"
    cfg = "SPECIFICATION Spec\nCONSTANTS\n  Vals = {{1, 2}}\n  MaxLines = 3\n  MaxFiles = 2\n  Bug = \"{b}\"\nINVARIANT OneRowPerFrame\nINVARIANT RowIsFrameEnergy\nCHECK_DEADLOCK FALSE\n"
    ctx.model("Orca", ctx.cfg("orca.cfg", cfg.format(b="none")), workers=8, note="all files of <= 3 lines, two frames")
    for b, inv in (("firstFinal", "RowIsFrameEnergy"), ("dropFailed", "OneRowPerFrame"), ("unanchored", "RowIsFrameEnergy")):
        ctx.mutant("Orca", ctx.cfg(f"orca_{b}.cfg", cfg.format(b=b)), inv)
    d = ctx.scratch / "orca"
    d.mkdir()
    recs = []
    for tid in range(120 if ctx.tier == "thorough" else 40):
        nfiles = rng.randint(1, 8)
        files, paths = [], []
        for k in range(nfiles):
            lines = []
            for _ in range(rng.randint(0, 6)):
                kind = rng.choice(["final", "final", "indent", "other", "other"])
                lines.append(dict(kind=kind, v=-rng.randint(10_000_000, 900_000_000) if kind in ("final", "indent") else rng.randint(1, 9)))
            lines.append(dict(kind="time", v=0))
            rng.shuffle(lines)
            if rng.random() < 0.2:
                lines = [ln for ln in lines if ln["kind"] != "final"]           # a failed frame
            p = str(d / f"r{tid}_{str(k).zfill(10)}.out")
            open(p, "w").write("".join(render(ln) for ln in lines))
            files.append([dict(kind=ln["kind"], v=(ln["v"] if ln["kind"] in ("final", "indent") else 0)) for ln in lines])
            paths.append(p)
        rec = dict(tid=tid, files=files, table=[], kj9=0, names_ok=True, inp_ok=True, err="")
        try:
            solvent = rng.choice([None, "water"])
            setup = OR.QuantumSetup("PBE0", "def2-TZVP", solvent=solvent, dispersion_correction=rng.choice(["D4", ""]))
            csv = str(d / f"energy_{tid}.csv")
            with quiet():
                OR.read_important_stuff_into_csv(paths, csv, setup)
                er = EnergyReader(csv)
                tab = er.load_energy()
                col = np.asarray(er.load_single_energy_column("Energy [hartree]"), dtype=float)
                kj = np.asarray(er.load_single_energy_column("Energy [kJ/mol]"), dtype=float)
            rec["table"] = [0 if np.isnan(x) else int(round(x * 1e6)) for x in col]
            ok = ~np.isnan(col)
            rec["names_ok"] = bool(list(tab.index) == paths and np.array_equal(np.isnan(kj), np.isnan(col)))
            if ok.any():
                rec["kj9"] = int(np.ceil(np.max(np.abs(kj[ok] / (col[ok] * 2625.4996394798254) - 1)) * 1e9))
            mol = OR.QuantumMolecule(charge=rng.choice([0, 1, -1]), multiplicity=rng.choice([1, 2]), path_xyz="frame.xyz")
            geo = rng.choice(["Opt", "", "TightOpt"])
            text = OR.make_inp_file(mol, setup, geo_optimization=geo)
            want = f"! PBE0 {setup.dispersion_correction} def2-TZVP {geo}\n" + ('%CPCM SMD TRUE\nSMDSOLVENT "water"\nEND\n' if solvent else "") + \
                   f"*xyzfile {mol.charge} {mol.multiplicity} frame.xyz\n"
            rec["inp_ok"] = bool(text == want)
        except Exception as ex:
            rec["err"] = type(ex).__name__
        recs.append(rec)
        ctx.count(1, nontrivial_key=tid)
    for tid, clause, _ in ctx.validate("Orca_Trace", "Orca_Trace.cfg", recs, name="orca"):
        ctx.violation(f"ORCA collection run {tid} ({len(recs[tid]['files'])} frame files): {clause}", dict(record=recs[tid], clause=clause))
    ctx.sample(recs[0])
    import shutil
    shutil.rmtree(d, ignore_errors=True)
