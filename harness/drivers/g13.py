"""G13 (growth) — graph views of a polytope object (polytopes.py: get_polytope_adj_matrix, get_N_element_graph,
Cube4DPolytope.get_all_cells and the `face` attribute), validated by spec/PolyViews_Trace.tla: the adjacency matrix in index
order is the edge set of the creation graph; the N-element graph is "remove the other nodes in index order, reconnecting their
neighbours" (the operator G01 binds to remove_and_reconnect, folded); the eight cells of the hypercube are its eight sides."""
from __future__ import annotations

import numpy as np

from ..core import Ctx, quiet


def views(kind, level, Ns):
    from molgri.space import polytopes as P
    cls = dict(ico=P.IcosahedronPolytope, cube3D=P.Cube3DPolytope, cube4D=P.Cube4DPolytope)[kind]
    recs = []
    base = dict(kind=kind, level=level, n=0, edges=[], pairs=[], N=0, after=[], kept=[], coords=[], M=1, faces=[], cells=[], err="")
    try:
        with quiet():
            p = cls()
            for _ in range(level):
                p.divide_edges()
            ci = {n: int(d["central_index"]) for n, d in p.G.nodes(data=True)}
            n = len(ci)
            edges = [[ci[a], ci[b]] for a, b in p.G.edges()]
            A = P.Polytope.get_polytope_adj_matrix(p).tocoo()
            pairs = [[int(i), int(j)] for i, j, v in zip(A.row, A.col, A.data) if v]
        recs.append(dict(base, ev="adjview", n=n, edges=edges, pairs=pairs))
        for N in Ns:
            r = dict(base, ev="nelement", n=n, edges=edges, N=int(N))
            try:
                with quiet():
                    pts = p.get_nodes(N=N, projection=True)
                    H, kept = P.Polytope.get_N_element_graph(p, pts)
                r["after"] = [[ci[a], ci[b]] for a, b in H.edges()]
                r["kept"] = [ci[tuple(x)] for x in kept]
            except Exception as ex:
                r["err"] = type(ex).__name__
            recs.append(r)
        if kind == "cube4D":
            r = dict(base, ev="cells", n=n)
            try:
                with quiet():
                    cells = p.get_all_cells()
                raw = np.array(sorted(p.G.nodes, key=lambda x: ci[x]), dtype=float)
                M = np.max(np.abs(raw))
                K = 2 ** max(level - 1, 0)
                ints = raw / M * K
                if not np.allclose(ints, np.round(ints), atol=1e-9):
                    r["err"] = "projection:not on the lattice"
                r["coords"], r["M"] = np.round(ints).astype(int).tolist(), int(K)
                r["faces"] = [sorted(int(c) for c in p.G.nodes[x]["face"]) for x in sorted(p.G.nodes, key=lambda x: ci[x])]
                r["cells"] = [sorted(int(d["central_index"]) for _, d in c.G.nodes(data=True)) for c in cells]
            except Exception as ex:
                r["err"] = type(ex).__name__
            recs.append(r)
    except Exception as ex:
        recs.append(dict(base, ev="adjview", err=type(ex).__name__))
    return recs


def run(ctx: Ctx):
    ctx.cov["rule"] = "icosahedron, cube, hypercube at levels 0 and 1 (hypercube 0/1), several N per polytope; non-trivial = a view"
    plan = [("ico", 0, [3, 6, 7, 11, 12]), ("ico", 1, [12, 13, 20, 30, 41]), ("cube3D", 0, [3, 5, 8]), ("cube3D", 1, [8, 9, 15, 25]),
            ("cube4D", 0, [4, 9, 15]), ("cube4D", 1, [])]
    if ctx.tier == "thorough":          # (level-2 polytopes make the folded removal deep enough for TLC's evaluator stack under load: not used)
        plan += [("ico", 1, [5, 17, 25, 36]), ("cube3D", 1, [4, 12, 20]), ("cube4D", 1, [20, 40])]
    recs = []
    for kind, level, Ns in plan:
        recs += views(kind, level, Ns)
    for i, r in enumerate(recs):
        r["tid"] = i
        ctx.count(1, nontrivial_key=(r["kind"], r["level"], r["ev"], r["N"]))
    for tid, clause, _ in ctx.validate("PolyViews_Trace", "PolyViews_Trace.cfg", recs, name="polyviews", timeout=1800):
        r = recs[tid]
        ctx.violation(f"{r['kind']} level {r['level']}: {r['ev']}" + (f"(N={r['N']})" if r["ev"] == "nelement" else "") + f": {clause}",
                      dict(kind=r["kind"], level=r["level"], view=r["ev"], N=r["N"], clause=clause, err=r["err"]))
    ctx.sample({k: (v if not isinstance(v, list) else v[:6]) for k, v in recs[1].items()})
