"""C05 — spherical-shell position cells tile the ball: exact volumes, faces, distances.

Model: spec/Shells.tla (operational construction of the position matrices vs the statement, exhaustive
over radial grids from a pool and all direction adjacencies on n_o <= 3).  Conformance S->C: TLC as
evaluator writes the expected structure (pairs, rational coefficients, direction atoms) for every
radial grid; the driver multiplies by the direction grid's own atoms and compares EVERY entry of the
real PositionGrid outputs, plus the telescoping sums."""
from __future__ import annotations

import itertools
import math
import random

import numpy as np

from ..core import Ctx, quiet

POOL = [2, 4, 6, 10, 16, 26, 42]          # units of 0.05 A (even, so that boundaries are integers)
U = 0.05                                   # Angstrom per unit


def cfg_text(bug="none", invs=("OperationalIsDeclarative", "SymmetricCoefficients", "Telescoping", "BoundariesInterleave"), maxt=4):
    return (f"SPECIFICATION Spec\nCONSTANTS\n  Pool = {{{', '.join(map(str, POOL))}}}\n  MaxT = {maxt}\n  MaxO = 3\n  Bug = \"{bug}\"\n"
            + "".join(f"INVARIANT {i}\n" for i in invs))


def radial_text(r_units, rng, prefer=None):
    nm = [x * U / 10 for x in r_units]                       # nm
    lits = [("%.4f" % v).rstrip("0") for v in nm]
    style = rng.randrange(5) if prefer is None else prefer
    order = list(lits)
    equi = len(r_units) >= 2 and len({b - a for a, b in zip(r_units, r_units[1:])}) == 1
    if style == 4 and equi:       # range(start, stop, step) with the stop half a step beyond the last radius
        step = nm[1] - nm[0]
        return f"range({lits[0]}, {('%.5f' % (nm[-1] + step / 2)).rstrip('0')}, {('%.4f' % step).rstrip('0')})"
    if style == 1:
        rng.shuffle(order)
        return "(" + ", ".join(order) + ("," if len(order) == 1 else "") + ")"
    if style == 2 and len(order) > 1:
        return ", ".join(reversed(order))
    if style == 3 and equi:
        return f"linspace({lits[0]}, {lits[-1]}, {len(lits)})"
    return "[" + ", ".join(order) + "]"


def relerr(a, b):
    return abs(a - b) / max(abs(a), abs(b), 1e-300)


def run(ctx: Ctx):
    from molgri.space.fullgrid import PositionGrid
    thorough = ctx.tier == "thorough"
    rng = random.Random(ctx.seed)
    ctx.cov["rule"] = ("strictly increasing radial grids with 2..4 radii from a pool (unequal spacings) in several text formats x "
                       "direction grids of all three algorithms incl. partial levels; every cell and every pair of cells; "
                       "non-trivial = distinct (radial grid, direction grid)")
    ctx.assumptions += ["the direction atoms (areas, arcs, angles) and the direction adjacency are taken from the brute-force S^2 oracle",
                        "entries compared at relative 1e-9"]
    ctx.model("Shells", ctx.cfg("sh.cfg", cfg_text()), workers=16, note="all radial grids of length 1..4 from the pool x n_o <= 3 x all direction adjacencies")
    for bug in ("boundaryOfUpperShell", "equalSpacing", "noSubtraction"):
        ctx.mutant("Shells", ctx.cfg(f"sh_{bug}.cfg", cfg_text(bug, ["OperationalIsDeclarative"], 3)), "OperationalIsDeclarative")
    radials = [c for T in (2, 3, 4) for c in itertools.combinations(POOL, T)]
    rng.shuffle(radials)
    radials = radials[: (90 if thorough else 12)]
    radials += [c for c in [(4, 10), (6, 16, 26), (2, 4, 6)] if c not in radials]       # equidistant ones: range(...) / linspace(...) texts exist for them
    dirs = [("ico", 4), ("ico", 12), ("cube3D", 9), ("randomS", 7), ("ico", 20), ("cube3D", 26)]
    if thorough:
        dirs += [("ico", 5), ("ico", 7), ("ico", 13), ("ico", 42), ("cube3D", 8), ("cube3D", 13), ("randomS", 4), ("randomS", 12),
                 ("randomS", 30), ("ico", 43), ("cube3D", 27)]
    grids = {}
    from molgri.space.rotobj import SphereGridFactory
    from ..oracles.sphere import s2_geometry
    for alg, N in dirs:
        with quiet():
            g = SphereGridFactory.create(alg, N, 3)
            P = np.asarray(g.get_grid_as_array(), dtype=float)
        # the direction atoms (cell areas, shared arcs, great-circle angles) and the direction adjacency come from the
        # independent brute-force oracle, NOT from the grid's own getters, so that C05 does not inherit their errors
        geo = s2_geometry(P)
        arc = np.zeros((N, N))
        ang = np.zeros((N, N))
        adj = []
        for (i, j), (ns, a, th) in geo["pairs"].items():
            if ns >= 2:
                arc[i, j] = arc[j, i] = a
                ang[i, j] = ang[j, i] = th
                adj += [[i, j], [j, i]]
        grids[(alg, N)] = dict(area=np.asarray(geo["areas"], dtype=float), arc=arc, ang=ang, adj=sorted(adj))
    cases, meta = [], []
    for r in radials:
        for (alg, N) in (dirs if thorough else rng.sample(dirs, 3)):
            cases.append(dict(r=list(r), nO=N, adj=grids[(alg, N)]["adj"]))
            meta.append((r, alg, N))
    expect = ctx.evaluate("Shells_Eval", cases, name="shells", timeout=1800)
    n_equi = 0
    for (r, alg, N), ex in zip(meta, expect):
        equi = len({b - a for a, b in zip(r, r[1:])}) == 1
        n_equi += equi
        text = radial_text(r, rng, prefer=(4 if n_equi % 2 else 3) if equi else None)      # equidistant grids alternate between range(...) and linspace(...)
        key0 = f"PositionGrid(o='{alg}_{N}', radii(0.05A units)={list(r)})"
        ctx.count(1, nontrivial_key=(r, alg, N))
        at = grids[(alg, N)]

        def atom(a):
            if a[0] == "area":
                return at["area"][a[1]]
            if a[0] == "arc":
                return at["arc"][a[1], a[2]]
            if a[0] == "angle":
                return at["ang"][a[1], a[2]]
            return 1.0
        try:
            with quiet():
                pg = PositionGrid(f"{alg}_{N}", text)
                vol = np.asarray(pg.get_all_position_volumes(), dtype=float)
                # every getter is asked twice on the same object; the SECOND answer is checked
                pg.get_adjacency_of_position_grid(); pg.get_borders_of_position_grid(); pg.get_distances_of_position_grid()
                pg.get_all_position_volumes()
                vol = np.asarray(pg.get_all_position_volumes(), dtype=float)
                A = pg.get_adjacency_of_position_grid().toarray()
                B = pg.get_borders_of_position_grid().toarray()
                D = pg.get_distances_of_position_grid().toarray()
        except Exception as exn:
            ctx.violation(f"{key0}: exception {type(exn).__name__}", dict(text=text))
            continue
        n = ex["n"]
        bad = None
        if vol.shape != (n,) or A.shape != (n, n) or B.shape != (n, n) or D.shape != (n, n):
            bad = f"shapes {vol.shape} {A.shape} {B.shape} {D.shape} for n={n}"
        if bad is None:
            for p, v in enumerate(ex["vol"]):
                want = v["num"] / v["den"] * U ** 3 * atom(v["atom"])
                if relerr(vol[p], want) > 1e-8:
                    bad = f"volume of cell {p}: {vol[p]!r} != {want!r}"
                    break
        if bad is None:
            pat = np.zeros((n, n), dtype=bool)
            for e in ex["entries"]:
                pat[e["p"], e["q"]] = True
                wb = e["bnum"] / e["bden"] * U ** 2 * atom(e["batom"])
                wd = e["dnum"] / e["dden"] * U * atom(e["datom"])
                if relerr(B[e["p"], e["q"]], wb) > 1e-8:
                    bad = f"border ({e['p']},{e['q']}): {B[e['p'], e['q']]!r} != {wb!r}"
                    break
                if relerr(D[e["p"], e["q"]], wd) > 1e-8:
                    bad = f"distance ({e['p']},{e['q']}): {D[e['p'], e['q']]!r} != {wd!r}"
                    break
            if bad is None:
                for name, M in (("adjacency", A), ("borders", B), ("distances", D)):
                    if not np.array_equal(M != 0, pat):
                        i, j = np.argwhere((M != 0) != pat)[0]
                        bad = f"{name} pattern differs from 'radially adjacent or same shell and adjacent directions' at ({i},{j})"
                        break
        if bad is None:
            RT = ex["between"][-1] * U
            if relerr(vol.sum(), 4 / 3 * math.pi * RT ** 3) > 1e-9:
                bad = f"volumes sum to {vol.sum()!r}, ball volume {4 / 3 * math.pi * RT ** 3!r}"
        if bad:
            ctx.violation(f"{key0}: {bad.split(':')[0]}", dict(text=text, detail=bad))
    ctx.sample(dict(case=dict(r=cases[0]["r"], nO=cases[0]["nO"]), expected_vol_head=expect[0]["vol"][:2], expected_entries_head=expect[0]["entries"][:2]))
    ctx.cov["traces_validated_against_impl"] += len(cases)
