"""C07 — every generated sphere grid is N distinct unit points; rotations are unique.

Spec: the `Grid` and `Rows` events of spec/GridLife_Trace.tla (row count, unit norm, distinctness, the
separation bounds computed in the spec by integer search, canonical half, no two rows one rotation,
double cover = [G; -G], named N = 1 grids) together with the exact lattice statement of Polytope.tla:
a polytope grid is the first N index-ordered (canonical-half) polytope nodes, whose lattice
coordinates, distinctness and antipodal pairing TLC decides on integers (C18)."""
from __future__ import annotations

import numpy as np

from ..core import Ctx, quiet
from ..gridlife import create, DIM
from .c08 import prefix_events
from .c18 import cfg_text as poly_cfg


def grid_event(alg, N, byname=False):
    if byname:      # the user-facing path: the name parser chooses the algorithm (N = 1 selects the zero algorithm)
        from molgri.naming import GridNameParser
        with quiet():
            alg = GridNameParser(f"{alg}_{N}", "o" if DIM[alg] == 3 else "b").get_alg()
    e = dict(ev="Grid", byname=bool(byname), alg=alg, n=int(N), dim=DIM[alg], rows=0, norm12=0, mindist6=1, dmin3=0, signs=[], anti6=1, coverNeg=True,
             first=[], err="")
    try:
        with quiet():
            g = create(alg, N)
            if DIM[alg] == 4:
                # a caller normalises / flips the half array it was handed (the pinned getter hands out a copy of the selected
                # rows, and the package's own code edits returned arrays in place, e.g. FullGrid.get_full_prefactors): what the
                # grid answers afterwards is what is checked
                first = g.get_grid_as_array(only_upper=True)
                if isinstance(first, np.ndarray) and first.flags.writeable and first.size:
                    first *= -1.0
                G = np.asarray(g.get_grid_as_array(only_upper=True), dtype=float)
                full = np.asarray(g.get_grid_as_array(only_upper=False), dtype=float)
            else:
                if N % 2 == 0:      # the documented upper-half selection of a direction grid asked first (a legal getter, stuttering here)
                    g.get_grid_as_array(only_upper=True)
                G = np.asarray(g.get_grid_as_array(), dtype=float)
                full = G
    except ValueError as ex:
        e["err"] = "ValueError"
        return e
    except Exception as ex:
        e["err"] = type(ex).__name__
        return e
    e["rows"] = int(G.shape[0]) if G.ndim == 2 and G.shape[1] == DIM[alg] else -1
    e["norm12"] = int(np.ceil(np.max(np.abs(np.linalg.norm(G, axis=1) - 1.0)) * 1e12))
    if len(G) > 1:
        D = np.linalg.norm(G[:, None, :] - G[None, :, :], axis=2)
        D[np.diag_indices(len(G))] = np.inf
        dmin = float(D.min())
        e["mindist6"] = int(np.floor(dmin * 1e6))
        e["dmin3"] = int(np.floor(dmin * 1e3))
    if DIM[alg] == 4:
        e["signs"] = [[int(np.sign(x)) if abs(x) > 1e-9 else 0 for x in row] for row in G]
        if len(G) > 1:
            S = np.linalg.norm(G[:, None, :] + G[None, :, :], axis=2)
            S[np.diag_indices(len(G))] = np.inf
            e["anti6"] = int(np.floor(S.min() * 1e6))
        e["coverNeg"] = bool(full.shape == (2 * len(G), 4) and np.array_equal(full[:len(G)], G) and np.array_equal(full[len(G):], -G))
    if N == 1:
        e["first"] = [int(round(x)) if abs(x - round(x)) < 1e-12 else 99 for x in G[0]]
    return e


def run(ctx: Ctx):
    thorough = ctx.tier == "thorough"
    ctx.cov["rule"] = ("SphereGridFactory.create for ico, cube3D, randomS (every N in 1..100 quick / 1..642 + samples to 2562 thorough), "
                       "cube4D, randomQ (every N in 1..40 / 1..80 + the half-hypercube to 272), fulldiv (8, 40, 272), zero3D/zero4D; "
                       "non-trivial = distinct (algorithm, N)")
    ctx.assumptions += ["separation bounds evaluated with one unit (1e-3) of slack for the floor of the logged distance"]
    for kind, ml in (("cube3D", 2), ("ico", 2), ("cube4D", 1)):
        ctx.model("Polytope", ctx.cfg(f"poly_{kind}.cfg", poly_cfg(kind, ml)), note=f"lattice nodes distinct, closed under negation, canonical half: {kind}")
    events = []
    b3, b4 = (100, 40)
    plan = []
    for alg in ("ico", "cube3D", "randomS"):
        Ns = list(range(1, b3 + 1))
        if thorough:
            Ns = list(range(1, 643)) + ([1000, 2562] if alg != "randomS" else [1000])
        plan += [(alg, N) for N in Ns]
    for alg in ("cube4D", "randomQ"):
        Ns = list(range(1, b4 + 1))
        if thorough:
            Ns = list(range(1, 81)) + ([150, 272] if alg == "cube4D" else list(range(81, 273)))
        elif alg == "randomQ":
            Ns += [64, 100, 150]          # samples towards the exploration bound of the statement (every N to 272 in the thorough tier)
        else:
            Ns += [64]
        plan += [(alg, N) for N in Ns]
    plan += [("fulldiv", 8), ("fulldiv", 40), ("zero3D", 1), ("zero4D", 1), ("fulldiv", 9)]
    for alg in ("ico", "cube3D", "randomS", "cube4D", "randomQ", "fulldiv", "zero3D", "zero4D"):
        events.append(grid_event(alg, 1, byname=True))
    # a zero algorithm always has N = 1, whatever size is requested from the factory
    for alg in ("zero3D", "zero4D"):
        for N in (2, 3, 5):
            e = grid_event(alg, N)
            e["n"], e["byname"], e["requested"] = 1, True, N
            if e["rows"] == 1 and not e["err"]:
                with quiet():
                    g0 = create(alg, N)
                    G0 = np.asarray(g0.get_grid_as_array(only_upper=True) if DIM[alg] == 4 else g0.get_grid_as_array(), dtype=float)
                e["first"] = [int(round(x)) if abs(x - round(x)) < 1e-12 else 99 for x in G0[0]]
            events.append(e)
    if thorough:
        plan.append(("fulldiv", 272))
    for alg, N in plan:
        events.append(grid_event(alg, N))
        ctx.count(1, nontrivial_key=(alg, N))
    # "fulldiv_9" is a size the algorithm documents as unsupported: a ValueError is the allowed outcome
    events = [e for e in events if not (e["alg"] == "fulldiv" and e["n"] not in (8, 40, 272, 2080) and e["err"] == "ValueError")]
    rows_plan = {"ico": [1, 2, 12, 13, 42, 43, 100], "cube3D": [1, 8, 9, 26, 27, 98], "cube4D": [1, 8, 9, 40]}
    if thorough:
        rows_plan = {"ico": [1, 12, 13, 42, 43, 162, 163, 642, 643, 2562], "cube3D": [1, 8, 9, 26, 27, 98, 99, 386, 387, 1538],
                     "cube4D": [1, 8, 9, 40, 41, 80, 272]}
    events += prefix_events({}, rows_plan)
    for i, e in enumerate(events):
        e["tid"] = i
    rejects = ctx.validate("GridLife_Trace", "GridLife_Trace.cfg", events, name="grids", timeout=1800)
    for tid, clause, _ in rejects:
        e = events[tid]
        ctx.violation(f"grid {e['alg']}_{e['n']}: {clause}", dict(event={k: v for k, v in e.items() if k not in ("signs", "ids", "poly")}, clause=clause))
    ctx.sample({k: v for k, v in events[14].items() if k != "signs"})
    ctx.sample({k: (v if k != "signs" else v[:3]) for k, v in [e for e in events if e.get("dim") == 4][8].items()})
    ctx.cov["exhaustive"] = True
