"""Executed in a subprocess with PYTHONPATH = scratch copy of the package and cwd = a scratch working directory:
runs one history of set_up_io operations / user operations (JSON on argv[1]) and dumps one projection per operation (argv[2])."""
import ast
import json
import os
import shutil
import sys

FOLDERS = ["output/data/energies", "output/data/pt_files", "input", "output/figures", "output/animations", "output/data/logging",
           "output/data/autosave", "input/logbook", "output/data/traj_files", "experiments", "molgri/examples"]


def projection(names, paths_file, committed):
    dirs = [f for f in FOLDERS if os.path.isdir(f)]
    files = []
    for f in dirs:
        for fn in sorted(os.listdir(f)):
            p = os.path.join(f, fn)
            if os.path.isfile(p) and fn in names:
                body = open(p, "rb").read()
                cls = "user" if body == b"user" else ("example" if body == ("example:" + fn).encode() else "other")
                files.append(dict(f=f, id=names.index(fn), cls=cls))
            elif os.path.isfile(p):
                files.append(dict(f=f, id=-1, cls="unknown:" + fn))
    txt = open(paths_file).read() if os.path.exists(paths_file) else None
    if txt is None:
        paths = "absent"
    else:
        try:
            vals = [n.value.value for n in ast.parse(txt).body if isinstance(n, ast.Assign)]
            paths = "defaults" if vals == [f + "/" for f in FOLDERS] else "other"
        except Exception:
            paths = "other"
    return dirs, files, paths


def main():
    job, out_path = json.load(open(sys.argv[1])), sys.argv[2]
    names, ops, examples = job["names"], job["ops"], job["examples"]
    import molgri.constants as C
    paths_file = C.PATH_USER_PATHS
    committed = open(paths_file).read()
    from molgri.scripts import set_up_io as S
    out = []
    for op in ops:
        rec = dict(tid=job["tid"], op=op["op"], f=op.get("f", ""), id=op.get("id", -1), r=op.get("r", ""), examples=examples, err="")
        try:
            if op["op"] == "Setup":
                S.freshly_create_all_folders()
            elif op["op"] == "SetupExamples":
                sys.argv = ["molgri-io", "--examples"]
                S.parse_and_create()
            elif op["op"] == "Copy":
                S.copy_examples()
            elif op["op"] == "Add":
                open(os.path.join(op["f"], names[op["id"]]), "wb").write(b"user")
            elif op["op"] == "Remove":
                shutil.rmtree(op["r"])
            elif op["op"] == "Edit":
                open(paths_file, "w").write("PATH_OUTPUT_PT = 'elsewhere/'\n")
        except Exception as ex:
            rec["err"] = type(ex).__name__
        rec["dirs"], rec["files"], rec["paths"] = projection(names, paths_file, committed)
        out.append(rec)
    json.dump(out, open(out_path, "w"))


if __name__ == "__main__":
    main()
