"""G02 (growth, DESIGN §5; workflow run_msm) — the MSM transition matrix is stationary at the visit counts and the
package's DecompositionTool recovers that: eigenvalue 1, left eigenvector proportional to r_i, zero on unvisited cells.

Model: Msm.tla invariant StationaryIsVisitCounts (all short trajectories).  C->S: random trajectories ->
MSM -> DecompositionTool (the call the workflow makes), validated by Stationary_Trace."""
from __future__ import annotations

import random

import numpy as np
from scipy.sparse.csgraph import connected_components

from ..core import Ctx, quiet
from .c12 import cfg_text


def record(rng, m, L, tau):
    from molgri.molecules.transitions import MSM, DecompositionTool
    x, cur = [], rng.randrange(m)
    while len(x) < L:                       # a random walk so that the visited graph is connected
        x += [cur] * rng.randint(1, 3)
        if rng.random() < 0.08:
            x += [-1] * rng.randint(1, 2)
        cur = (cur + rng.choice([-1, 1, 2])) % m
    x = x[:L]
    total = m + 2                           # two cells are never visited
    rec = dict(x=x, tau=tau, m=total, rows=[], connected=False, lam1_9=0, imag9=0, spread6=0, zero9=0, err="")
    try:
        arr = np.array([np.nan if v < 0 else float(v) for v in x])
        with quiet():
            T = MSM(arr, total).get_one_tau_transition_matrix(tau, noncorrelated_windows=False)
        C = np.zeros((total, total))
        for k in range(0, len(x) - tau):
            a, b = x[k], x[k + tau]
            if a >= 0 and b >= 0:
                C[a, b] += 1
                C[b, a] += 1
        r = C.sum(axis=1)
        rec["rows"] = [int(v) for v in r]
        vis = np.nonzero(r > 0)[0]
        ncomp, _ = connected_components((C[np.ix_(vis, vis)] > 0).astype(int), directed=False)
        rec["connected"] = bool(ncomp == 1 and len(vis) >= 6)
        if rec["connected"]:
            with quiet():
                lam, vec = DecompositionTool(T).get_decomposition(tol=1e-12, maxiter=100000, which="LR", sigma=None, k=3)
            dense = np.linalg.eigvals(T.toarray().T)
            rec["lam1_9"] = int(np.ceil(abs(lam[0] - 1.0) * 1e9))
            rec["imag9"] = int(np.ceil(abs(dense[np.argmax(dense.real)].imag) * 1e9))
            v = vec[:, 0]
            ratio = v[vis] / r[vis]
            rec["spread6"] = int(np.ceil((ratio.max() - ratio.min()) / abs(ratio.mean()) * 1e6))
            unv = np.nonzero(r == 0)[0]
            rec["zero9"] = int(np.ceil(np.max(np.abs(v[unv])) / np.max(np.abs(v)) * 1e9)) if len(unv) else 0
    except Exception as ex:
        rec["err"] = type(ex).__name__
    return rec


def run(ctx: Ctx):
    rng = random.Random(ctx.seed)
    ctx.cov["rule"] = "random walks over 8..14 cells with NaN gaps and two never-visited cells, lags 1..5; non-trivial = connected visited graph"
    ctx.model("Msm", ctx.cfg("msm_st.cfg", cfg_text(3, 5, 5, invs=["StationaryIsVisitCounts", "DetailedBalance"])), workers=16,
              note="visit counts stationary for every short trajectory")
    recs = [record(rng, rng.randint(8, 14), rng.randint(150, 400), rng.randint(1, 5)) for _ in range(150 if ctx.tier == "thorough" else 40)]
    for i, r in enumerate(recs):
        r["tid"] = i
        ctx.count(1, nontrivial_key=i if r["connected"] else None)
    rejects = ctx.validate("Stationary_Trace", "Stationary_Trace.cfg", recs, name="stationary")
    for tid, clause, _ in rejects:
        r = recs[tid]
        ctx.violation(f"MSM+DecompositionTool x={r['x'][:30]}... tau={r['tau']} m={r['m']}: {clause}", dict(record=r, clause=clause))
    ctx.sample({k: (v if k != "x" else v[:40]) for k, v in recs[0].items()})
