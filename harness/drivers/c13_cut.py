"""C13, combined step SQRA.cut_and_merge: exhaustive small inputs, C->S through CutMerge_Trace."""
from __future__ import annotations

import itertools

import numpy as np
from scipy.constants import k as kB, N_A
from scipy.sparse import csr_array, coo_array

from ..core import Ctx, quiet
from .c13 import m0, to_dense


def one_call(n, kind, storage, pairs, levels, lower2, upper2, T=300.0, holder=None):
    from molgri.molecules.transitions import SQRA
    unit = kB * N_A * T / 1000.0                      # one level = 1 RT in kJ/mol
    energies = np.array(levels, dtype=float) * unit
    rows = [p[0] for p in pairs] + [p[1] for p in pairs]
    cols = [p[1] for p in pairs] + [p[0] for p in pairs]
    dist = coo_array((np.ones(len(rows)), (rows, cols)), shape=(n, n)).tocsr()
    M = m0(n, kind)
    Min = csr_array(M) if storage == "csr" else M
    # holder: one SQRA object used for a whole series of calls with different limits (a limit scan on one model)
    if holder is not None and "sq" in holder:
        sq = holder["sq"]
    else:
        sq = SQRA(energies=energies, volumes=np.ones(n), distances=dist, surfaces=dist.copy())
        if holder is not None:
            holder["sq"] = sq
    lower = None if lower2 < 0 else lower2 / 2.0
    upper = None if upper2 < 0 else upper2 / 2.0
    rec = dict(n=n, kind=kind, storage=storage, adj=[list(p) for p in pairs] + [[p[1], p[0]] for p in pairs],
               e=list(levels), lower2=lower2, upper2=upper2)
    try:
        with quiet():
            out, il = sq.cut_and_merge(Min, T=T, lower_limit=lower, upper_limit=upper)
        D = to_dense(out)
        rec.update(haslist=il is not None, ilist=[] if il is None else [[int(x) for x in g] for g in il],
                   mat=[[int(v) for v in row] for row in D.tolist()], exact=bool(np.all(D == np.round(D))), err="")
    except Exception as ex:
        rec.update(haslist=False, ilist=[], mat=[], exact=True, err=type(ex).__name__)
    return rec


def run(ctx: Ctx, rng):
    thorough = ctx.tier == "thorough"
    ctx.model("CutMerge", "CutMerge.cfg", note="n=3: all adjacency patterns x levels x limit combinations")
    recs = []
    combo = 0
    sizes = [3, 4] if thorough else [3]
    for n in sizes:
        allpairs = list(itertools.combinations(range(n), 2))
        for r in range(len(allpairs) + 1):
            for pairs in itertools.combinations(allpairs, r):
                for levels in itertools.product(range(3), repeat=n):
                    if n == 4 and rng.random() > 0.12:
                        continue
                    combo += 1
                    holder = {} if combo % 2 else None          # every second input: ONE model object for all nine limit settings
                    for lower2 in (1, 3, -1):
                        for upper2 in (-1, 1, 3):
                            kind = "zerorow" if (len(recs) % 3) else "generic"
                            storage = "csr" if (len(recs) % 2) else "dense"
                            recs.append(one_call(n, kind, storage, pairs, levels, lower2, upper2, holder=holder))
    for i, r in enumerate(recs):
        r["tid"] = i
    rejects = ctx.validate("CutMerge_Trace", "CutMerge_Trace.cfg", recs, name="cut")
    for tid, clause, _ in rejects:
        r = recs[tid]
        lim = lambda x: None if x < 0 else x / 2
        key = (f"cut_and_merge n={r['n']} M0={r['kind']} {r['storage']} adj={sorted(p for p in r['adj'] if p[0] < p[1])} "
               f"levels={r['e']} lower={lim(r['lower2'])} upper={lim(r['upper2'])}")
        ctx.violation(key, dict(record=r, clause=clause))
    ctx.count(len(recs), nontrivial_key=None)
    for r in recs:
        if r["haslist"] and len(r["ilist"]) < r["n"]:
            ctx.count(0, nontrivial_key=("cut", r["n"], str(r["adj"]), str(r["e"]), r["lower2"], r["upper2"]))
    ctx.sample(dict(cut_and_merge=recs[len(recs) // 2]))
