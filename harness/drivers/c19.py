"""C19 — every valid grid specification yields all geometry or a deliberate ValueError.

Model: spec/GridOutcome.tla (life cycle Construct / Get(g) in any order; Allowed outcomes; modelled
defects as negative configs).  Conformance C->S: the real FullGrid over the whole box of tiny sizes,
both position modes, all getters in two orders with repeats; GridOutcome_Trace validates every call."""
from __future__ import annotations

import itertools
import random

import numpy as np

from ..core import Ctx, quiet

GETTERS = ["array", "volumes", "adjacency", "borders", "distances"]
RADII = {1: "[0.2]", 2: "[0.2, 0.35]", 3: "linspace(0.2, 0.5, 3)"}


def cfg_text(mb, mo, mt, bug="none"):
    return (f"SPECIFICATION Spec\nCONSTANTS\n  MaxB = {mb}\n  MaxO = {mo}\n  MaxT = {mt}\n  Bug = \"{bug}\"\n"
            "INVARIANT NoInternalError\nPROPERTY GetterPure\n")


def call_getter(fg, g):
    if g == "array":
        return np.asarray(fg.get_full_grid_as_array())
    if g == "volumes":
        return np.asarray(fg.get_total_volumes())
    if g == "adjacency":
        return fg.get_full_adjacency()
    if g == "borders":
        return fg.get_full_borders()
    return fg.get_full_distances()


def events_for(nb, no, nt, cart, order, b_alg="", o_alg="", b_name=None, o_name=None):
    from molgri.space.fullgrid import FullGrid
    evs = []
    try:
        with quiet():
            fg = FullGrid(b_grid_name=b_name or f"{b_alg}{nb}", o_grid_name=o_name or f"{o_alg}{no}", t_grid_name=RADII[nt],
                          position_grid_cartesian=cart)
        err = None
    except Exception as ex:
        fg, err = None, type(ex).__name__
    for g in order:
        if fg is None:
            evs.append(dict(g=g, kind="Error", cls=err, shape=[]))
            continue
        try:
            with quiet():
                res = call_getter(fg, g)
            evs.append(dict(g=g, kind="Ok", cls="", shape=[int(s) for s in res.shape]))
        except Exception as ex:
            evs.append(dict(g=g, kind="Error", cls=type(ex).__name__, shape=[]))
    return evs


def run(ctx: Ctx):
    thorough = ctx.tier == "thorough"
    rng = random.Random(ctx.seed)
    ctx.cov["rule"] = ("every (n_b, n_o) in 1..5 x n_t in 1..3 x both position modes through the real name and radial parsers; "
                       "all five getters in two different orders with one repeated call; non-trivial = distinct configuration")
    ctx.model("GridOutcome", ctx.cfg("go.cfg", cfg_text(5, 5, 3)), coverage_required=["Construct", "Get"], workers=8,
              note="all configurations of the box x all getter orders")
    ctx.mutant("GridOutcome", ctx.cfg("go_m1.cfg", cfg_text(3, 2, 1, "estimatedLacksRegions")), "NoInternalError")
    ctx.mutant("GridOutcome", ctx.cfg("go_m2.cfg", cfg_text(1, 2, 2, "singleRadiusIncrement")), "NoInternalError")
    recs = []
    algs = [("", "")]
    if thorough:
        algs += [("randomQ_", "randomS_"), ("cube4D_", "cube3D_")]
    for (b_alg, o_alg) in algs:
        for nb, no, nt, cart in itertools.product(range(1, 6), range(1, 6), range(1, 4), (False, True)):
            o1 = GETTERS + ["distances"]
            o2 = list(reversed(GETTERS)) + ["array"]
            if thorough:
                o2 = rng.sample(GETTERS, 5) + [rng.choice(GETTERS)]
            for order in (o1, o2):
                recs.append(dict(cfg=dict(nB=nb, nO=no, nT=nt, cartesian=cart), algs=[b_alg, o_alg],
                                 events=events_for(nb, no, nt, cart, order, b_alg, o_alg)))
            ctx.count(2, nontrivial_key=(b_alg, nb, no, nt, cart))
    # named algorithms at sizes beyond the box, created one after the other IN THIS PROCESS in a seeded order and in the reverse
    # order: a valid specification stays valid whatever grids were built before it (polytope grids of different subdivision
    # depth, the full-division grids fulldiv_8 / fulldiv_40 before and after deeper cube4D grids, the zero grids)
    named = [("cube4D_12", 12, "ico_7", 7, 2), ("fulldiv_8", 8, "cube3D_8", 8, 2), ("fulldiv_40", 40, "4", 4, 1), ("fulldiv_8", 8, "6", 6, 1),
             ("cube4D_3", 3, "ico_13", 13, 1), ("randomQ_9", 9, "randomS_6", 6, 2), ("zero", 1, "ico_5", 5, 1), ("cube4D_9", 9, "zero", 1, 2),
             ("cube4D_41", 41, "cube3D_9", 9, 1), ("fulldiv_8", 8, "ico_12", 12, 1)]
    if thorough:
        named += [("fulldiv_272", 272, "1", 1, 1), ("fulldiv_40", 40, "cube3D_27", 27, 1), ("cube4D_16", 16, "ico_43", 43, 2), ("fulldiv_8", 8, "randomS_5", 5, 3)]
    shuffled = list(named)
    rng.shuffle(shuffled)
    for pass_no, seq in enumerate((shuffled, list(reversed(shuffled)))):
        for (bn, nb, on, no, nt) in seq:
            cart = bool(no >= 5 and (pass_no + nb) % 2)
            order = rng.sample(GETTERS, 5) + [rng.choice(GETTERS)]
            recs.append(dict(cfg=dict(nB=nb, nO=no, nT=nt, cartesian=cart), algs=[bn, on], named=True,
                             events=events_for(nb, no, nt, cart, order, b_name=bn, o_name=on)))
            ctx.count(1, nontrivial_key=(bn, on, nt, cart, pass_no))
    for i, r in enumerate(recs):
        r["tid"] = i
    rejects = ctx.validate("GridOutcome_Trace", "GridOutcome_Trace.cfg", recs, name="outcomes")
    for tid, clause, k in rejects:
        r = recs[tid]
        c = r["cfg"]
        ev = r["events"][k - 1]
        bname, oname = (r["algs"][0], r["algs"][1]) if r.get("named") else (f"{r['algs'][0]}{c['nB']}", f"{r['algs'][1]}{c['nO']}")
        key = f"FullGrid(b='{bname}', o='{oname}', t='{RADII[c['nT']]}', cartesian={c['cartesian']}).{ev['g']} -> {clause}"
        ctx.violation(key, dict(record=r, clause=clause, event=k))
    ctx.cov["exhaustive"] = True
    ctx.sample(recs[0])
    ctx.sample(recs[len(recs) // 2])
