"""C12 — MSM transition matrix = symmetrised, row-normalised lag-tau count matrix.

Model: spec/Msm.tla (window generator as a loop with a loop invariant, exhaustive over all short
trajectories).  Conformance C->S: the same domain is enumerated against the real MSM class and every
returned matrix is validated by TLC (Msm_Trace) against the declarative definition of MsmOps.
"""
from __future__ import annotations

import itertools
import random

import numpy as np

from ..core import Ctx, quiet, MachineryError

SCALE = 27720  # lcm(1..12)


def cfg_text(m, lmax, taumax, bug="none", invs=None):
    invs = invs or ["LoopInvariant", "OperationalIsDeclarative", "EntriesInUnitInterval", "DetailedBalance",
                    "VisitedRowsSumToOne", "ReversalInvariant", "ShortTrajectoryIsZero", "DefinitionsAgree"]
    return (f"SPECIFICATION Spec\nCONSTANTS\n  M = {m}\n  Lmax = {lmax}\n  TauMax = {taumax}\n  Bug = \"{bug}\"\n"
            + "".join(f"INVARIANT {i}\n" for i in invs))


def make_msm(x, m):
    from molgri.molecules.transitions import MSM
    arr = np.array([np.nan if v < 0 else float(v) for v in x], dtype=float)
    return MSM(arr, total_num_cells=m)


def call(x, tau, noncorr, m, scale, msm=None):
    """one call; with `msm` given the SAME object is re-used (results must not depend on earlier calls on it)"""
    rec = dict(x=[int(v) for v in x], tau=int(float(tau)), noncorr=bool(noncorr), m=m, scale=scale,
               tau_form=type(tau).__name__)
    try:
        with quiet():
            T = (msm if msm is not None else make_msm(x, m)).get_one_tau_transition_matrix(tau, noncorrelated_windows=noncorr)
        D = np.asarray(T.toarray(), dtype=float)
        S = D * scale
        R = np.round(S)
        rec.update(T=[[int(v) for v in row] for row in R.tolist()], exact=bool(np.all(np.abs(S - R) < 1e-6)) and D.shape == (m, m), err="")
    except Exception as ex:
        rec.update(T=[], exact=True, err=type(ex).__name__)
    return rec


def run(ctx: Ctx):
    thorough = ctx.tier == "thorough"
    rng = random.Random(ctx.seed)
    M = 3
    lmax, taumax = (7, 8) if thorough else (5, 6)
    ctx.cov["rule"] = (f"all trajectories of length 0..{lmax} over cells 0..{M-1} and NaN x all lags 1..{taumax} x both "
                       "window modes (the initial states of Msm.tla), each evaluated by the real MSM class; plus random "
                       "long trajectories; non-trivial = at least one window is counted")
    ctx.assumptions += ["float64 row normalisation of counts <= 400 is reproduced within 1e-6 (checked per entry)"]
    # model level
    r = ctx.model("Msm", ctx.cfg("msm.cfg", cfg_text(M, min(lmax, 6), min(taumax, 7))),
                  coverage_required=["Window", "EndLoop", "Normalise"], workers=16, timeout=1500,
                  note="window-generator loop vs declarative counts, all short trajectories")
    for bug, inv in [("pairShort", "LoopInvariant"), ("nanIsZero", "LoopInvariant"), ("asymmetric", "DetailedBalance"),
                     ("dropLast", "OperationalIsDeclarative")]:
        ctx.mutant("Msm", ctx.cfg(f"msm_{bug}.cfg", cfg_text(2, 4, 3, bug=bug, invs=[inv])), inv)
    n_init_model = r.coverage.get("Init", (0, 0))[0]

    # conformance: same domain against the real code
    recs = []
    alphabet = list(range(M)) + [-1]
    for L in range(lmax + 1):
        for xi, x in enumerate(itertools.product(alphabet, repeat=L)):
            # one MSM object per trajectory, all lags and both modes requested from it, in alternating order:
            # the result for (tau, mode) must not depend on what was asked before
            msm = make_msm(x, M + 1)
            for tau in range(1, taumax + 1):
                for noncorr in ((False, True) if (xi + tau) % 2 else (True, False)):
                    recs.append(call(x, tau, noncorr, M + 1, SCALE, msm=msm))
    recs.sort(key=lambda r: (len(r["x"]), r["x"], r["tau"], r["noncorr"]))
    if not thorough and len(recs) != n_init_model:
        raise MachineryError(f"driver enumerated {len(recs)} cases, the model has {n_init_model} initial states")
    # long random trajectories with NaN runs; tau as int / float / str (the workflow passes a string)
    nrand = 400 if thorough else 80
    for _ in range(nrand):
        m = rng.randint(2, 12)
        L = rng.randint(1, 200)
        x = []
        while len(x) < L:
            if rng.random() < 0.15:
                x += [-1] * rng.randint(1, 5)
            else:
                c = rng.randrange(m)
                x += [c] * rng.randint(1, 4)
        x = x[:L]
        tau = rng.randint(1, 12)
        form = rng.choice([int, float, str])
        mm = m + rng.randint(0, 2)
        first = rng.random() < 0.5
        shared = make_msm(x, mm)
        recs.append(call(x, form(tau), first, mm, 10 ** 6, msm=shared))
        recs.append(call(x, form(tau), not first, mm, 10 ** 6, msm=shared))
    # get_all_tau_transition_matrices must agree with the single-tau call
    from molgri.molecules.transitions import MSM
    for _ in range(20 if thorough else 5):
        x = [rng.choice([0, 1, 2, 3, -1]) for _ in range(40)]
        taus = np.array([1, 2, 3, 5, 7])
        with quiet():
            mats = MSM(np.array([np.nan if v < 0 else float(v) for v in x]), 5).get_all_tau_transition_matrices(taus, noncorrelated_windows=False)
        for t, Tm in zip(taus, mats):
            D = np.asarray(Tm.toarray()) * 10 ** 6
            recs.append(dict(x=x, tau=int(t), noncorr=False, m=5, scale=10 ** 6, tau_form="all_taus",
                             T=[[int(v) for v in row] for row in np.round(D).tolist()], exact=True, err=""))
    for i, rec in enumerate(recs):
        rec["tid"] = i
    chunk = 40000
    for c0 in range(0, len(recs), chunk):
        part = recs[c0:c0 + chunk]
        rejects = ctx.validate("Msm_Trace", "Msm_Trace.cfg", part, name=f"msm_{c0}", timeout=1800)
        for tid, clause, _ in rejects:
            rec = recs[tid]
            key = f"x={rec['x']} tau={rec['tau']}({rec['tau_form']}) noncorr={rec['noncorr']} m={rec['m']}"
            ctx.violation(key, dict(record=rec, clause=clause))
    for rec in recs:
        nt = any(v for row in rec["T"] for v in row)
        ctx.count(1, nontrivial_key=(tuple(rec["x"]), rec["tau"], rec["noncorr"], rec["m"]) if nt else None)
    ctx.cov["exhaustive"] = True
    ctx.sample(recs[len(recs) // 3])
    ctx.sample({k: v for k, v in recs[-30].items() if k != "T"})
