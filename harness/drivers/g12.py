"""G12 (growth) — the repository's OWN tests under the specifications.  The fast test files of /repo are run with the pytest
plugin harness/testtap.py (no change to /repo), which records every call the tests make into merge_matrix_cells /
delete_rate_cells (with the history that leads to each call, reconstructed through the identity of the index lists the
tests thread from call to call), GridNameParser and TranslationParser.  The recorded calls are then validated by the trace
specs of C13 (Merge_Trace, base matrix = the tests' own matrix, kind "given"), C17 (GridName_Trace) and C16 (Radial_Trace):
the tests' inputs, the specifications' assertions - every index list, every matrix entry, every radius and boundary,
idempotence of every accepted name - instead of the handful of values the tests assert."""
from __future__ import annotations

import json
import os
import re
import subprocess
import sys

import numpy as np

from ..core import Ctx, MachineryError
from . import c16, c17

NUM_TOKENS = {"0", "1", "2", "7", "15", "007"}


def run_tests(ctx, files):
    repo = os.environ.get("VERIF_REPO", "/repo")
    tap = ctx.scratch / "tap.ndjson"
    env = dict(os.environ, VERIF_TAP_FILE=str(tap), PYTHONPATH=os.pathsep.join([str(ctx.scratch.parent.parent), repo]))
    p = subprocess.run([sys.executable, "-m", "pytest", "-q", "-p", "no:cacheprovider", "-p", "harness.testtap"] + files,
                       cwd=repo, env=env, capture_output=True, text=True, timeout=7200)
    tail = [ln for ln in p.stdout.splitlines() if re.search(r"passed|failed|error", ln)][-1:] or [p.stdout[-300:]]
    if not tap.exists():
        raise MachineryError("the test run recorded nothing: " + tail[0] + p.stderr[-500:])
    return [json.loads(ln) for ln in tap.read_text().splitlines() if ln.strip()], tail[0], p.returncode


def parse_req(text):
    """abstract request (units 10^-3 nm) of a radial-grid string, None if the string is outside the request language"""
    t = text.strip().replace("np.", "")
    dec = lambda s: int(round(float(s) * 1000)) if abs(float(s) * 1000 - round(float(s) * 1000)) < 1e-9 else None
    m = re.match(r"^(linspace|range|arange)\s*\((.*)\)$", t)
    try:
        if m:
            args = [dec(a) for a in m.group(2).split(",") if a.strip()]
            if any(a is None for a in args):
                return None
            if m.group(1) == "linspace":
                if len(args) == 3 and args[2] % 1000:
                    return None
                return dict(kind="linspace", a=args[0], b=args[1], num=args[2] // 1000 if len(args) == 3 else 50)
            a, b, st = (0, args[0], 1000) if len(args) == 1 else (args[0], args[1], args[2] if len(args) == 3 else 1000)
            return dict(kind="range", a=a, b=b, step=st)
        body = t.strip("[]() ")
        parts = [x for x in body.split(",") if x.strip()]
        vals = [dec(x) for x in parts]
        if any(v is None for v in vals) or not vals:
            return None
        if len(vals) == 1 and "," not in t and t[0] not in "[(":
            return dict(kind="scalar", a=vals[0])
        return dict(kind="list", vals=vals)
    except ValueError:
        return None


def run(ctx: Ctx):
    thorough = ctx.tier == "thorough"
    files = ["tests/test_parsers.py", "tests/test_rate_merger.py"] + (["tests/test_fullgrid.py", "tests/test_utils.py"] if thorough else [])
    ctx.cov["rule"] = "every call the listed test files of the repository make into the tapped functions; non-trivial = a recorded call that the spec language can express"
    taps, summary, rc = run_tests(ctx, files)
    ctx.cov["test_run"] = dict(files=files, summary=summary, returncode=rc)
    if "failed" in summary and not thorough:
        ctx.violation(f"the repository's own tests {files} do not pass: {summary}", dict(summary=summary))
    calls = {}
    for t in taps:
        calls[t["call"]] = calls.get(t["call"], 0) + 1
    ctx.cov["calls_recorded"] = calls
    skipped = dict(merge_unknown_parent=0, names_outside_alphabet=0, radial_outside_language=0)

    # ---- C13: merge / delete histories on the tests' own matrix
    by_base = {}
    for t in taps:
        if t["call"] not in ("Merge", "Delete"):
            continue
        if not t["parent_known"]:
            skipped["merge_unknown_parent"] += 1
            continue
        by_base.setdefault(json.dumps(t.get("root", None)), []).append(t)
    hist = [t for t in taps if t["call"] in ("Merge", "Delete") and t["parent_known"]]
    # the base matrix of a history = the matrix handed to its FIRST call; group histories by it
    roots = {}
    for t in hist:
        key = json.dumps(t["history"][:1])          # first op identifies the chain start together with its input matrix
        if len(t["history"]) == 1:
            roots[key] = t["m_in"]
    groups = {}
    for t in hist:
        base = roots.get(json.dumps(t["history"][:1]))
        if base is None:
            skipped["merge_unknown_parent"] += 1
            continue
        groups.setdefault(json.dumps(base), []).append(t)
    for gi, (bkey, ts) in enumerate(groups.items()):
        base = np.array(json.loads(bkey))
        if not np.all(base == np.round(base)):
            skipped["merge_unknown_parent"] += len(ts)
            continue
        bpath = ctx.scratch / f"base_{gi}.json"
        bpath.write_text(json.dumps(np.round(base).astype(int).tolist()))
        recs = [dict(tid=i, n=len(base), kind="given", storage=t["base"]["kind"], ops=t["history"]) for i, t in enumerate(ts)]
        for r in recs:
            ctx.count(1, nontrivial_key=("merge", gi, r["tid"]))
        for tid, clause, k in ctx.validate("Merge_Trace", "Merge_Trace.cfg", recs, name=f"tests_merge_{gi}", env={"BASE_FILE": str(bpath)}):
            ops = recs[tid]["ops"]
            ctx.violation("repository tests, rate_merger history " + " ; ".join(f"{o['op']}({o['arg']})" for o in ops[:k]) + f": {clause}",
                          dict(history=ops, clause=clause, step=k))

    # ---- C17: grid names used by the tests
    nrecs = []
    for t in taps:
        if t["call"] != "GridNameParser":
            continue
        toks = t["name"].split("_")
        if not all(x in c17.TOKENS or x in NUM_TOKENS for x in toks):
            skipped["names_outside_alphabet"] += 1
            continue
        if t["err"] == "":
            alg, n = t["std"].rsplit("_", 1)
            out = dict(kind="Std", alg=alg, n=int(n))
            re_ = c17.parse(t["std"], t["role"])
        else:
            out = dict(kind="ValueError") if t["err"] == "ValueError" else dict(kind="OtherError", cls=t["err"])
            re_ = dict(kind="skip")
        nrecs.append(dict(name=toks, role=t["role"] if t["role"] in ("o", "b") else "b", out=out, re=re_, built=-3))
    for i, r in enumerate(nrecs):
        r["tid"] = i
        ctx.count(1, nontrivial_key=("name", i))
    if nrecs:
        for tid, clause, _ in ctx.validate("GridName_Trace", "GridName_Trace.cfg", nrecs, name="tests_names"):
            r = nrecs[tid]
            ctx.violation(f"repository tests, GridNameParser('{'_'.join(r['name'])}', '{r['role']}'): {clause}", dict(record=r, clause=clause))

    # ---- C16: radial-grid strings used by the tests
    rrecs, bits = [], {}
    for text in dict.fromkeys(t["text"] for t in taps if t["call"] == "TranslationParser"):
        req = parse_req(text)
        if req is None:
            skipped["radial_outside_language"] += 1
            continue
        rec = c16.observe(text)
        rec["req"] = req
        if rec["err"] == "":
            rec["bits"] = bits.setdefault(rec.pop("bits_digest"), len(bits))
        rrecs.append(rec)
    for i, r in enumerate(rrecs):
        r["tid"] = i
        ctx.count(1, nontrivial_key=("radial", r["text"]))
    if rrecs:
        for tid, clause, _ in ctx.validate("Radial_Trace", "Radial_Trace.cfg", rrecs, name="tests_radial"):
            r = rrecs[tid]
            ctx.violation(f"repository tests, TranslationParser {c16.canonical(r['req'])}: {clause}", dict(text=r["text"], request=r["req"], clause=clause))
    # ---- C07 / C02: grids the tests construct (inputs harvested, the grids are re-built and projected by those drivers)
    from . import c07, c02
    from ..gridlife import DIM
    gspecs = list(dict.fromkeys((t["alg"], t["N"]) for t in taps if t["call"] == "SphereGridFactory.create" and t["alg"] in DIM and 1 <= t["N"] <= 300))
    gev = [c07.grid_event(a, n) for a, n in gspecs[: (200 if thorough else 40)]]
    gev = [e for e in gev if not (e["alg"] == "fulldiv" and e["err"] == "ValueError")]
    for i, e in enumerate(gev):
        e["tid"] = i
        ctx.count(1, nontrivial_key=("grid", e["alg"], e["n"]))
    if gev:
        for tid, clause, _ in ctx.validate("GridLife_Trace", "GridLife_Trace.cfg", gev, name="tests_grids", timeout=1800):
            ctx.violation(f"repository tests, grid {gev[tid]['alg']}_{gev[tid]['n']}: {clause}", dict(event={k: v for k, v in gev[tid].items() if k != "signs"}, clause=clause))
    fspecs = list(dict.fromkeys((t["b"], t["o"], t["t"], t["cartesian"], t["factor"]) for t in taps if t["call"] == "FullGrid"))
    frecs = []
    for b, o, t, cart, f in fspecs:
        size = 1
        for name in (b, o):
            m = re.findall(r"\d+", name.replace("3D", "").replace("4D", ""))
            size *= int(m[-1]) if m else 1
        try:
            from molgri.space.translations import TranslationParser
            tp = TranslationParser(t)
            size *= tp.get_N_trans()
            if min(tp.get_trans_grid()) <= 0 or "None" in b + o:          # outside the quantifier of C02 (positive radii, named grids)
                skipped["fullgrids_outside_c02"] = skipped.get("fullgrids_outside_c02", 0) + 1
                continue
        except Exception:
            continue
        if size > 320 or cart:          # Product_Trace works on dense n x n matrices; Cartesian grids with open cells are C06's business
            skipped["fullgrids_too_large_or_cartesian"] = skipped.get("fullgrids_too_large_or_cartesian", 0) + 1
            continue
        frecs.append(c02.record(b, o, t, cart, f))
        if len(frecs) >= (12 if thorough else 4):
            break
    for i, r in enumerate(frecs):
        r["tid"] = i
        ctx.count(1, nontrivial_key=("fullgrid", r["b"], r["o"], r["t"]))
    if frecs:
        for tid, clause, _ in ctx.validate("Product_Trace", "Product_Trace.cfg", frecs, name="tests_fullgrids", timeout=2400):
            r = frecs[tid]
            ctx.violation(f"repository tests, FullGrid(b='{r['b']}', o='{r['o']}', t='{r['t']}', factor={r['f']}): {clause}", dict(clause=clause))
    ctx.cov["grids_from_tests"] = dict(sphere_grids=len(gev), full_grids=len(frecs))
    ctx.cov["recorded_calls_outside_the_spec_languages"] = skipped
    ctx.sample(dict(test_summary=summary, calls=calls, merge_histories=sum(len(v) for v in groups.values()), names=len(nrecs), radial=len(rrecs)))
