"""G15 (growth) — the command-line front ends, run as their own processes on a SCRATCH COPY of the package
(`set_up_io.freshly_create_all_folders` rewrites molgri/paths.py inside the package it is imported from, so /repo itself is
never used as the import root here; the copy is taken from /repo's working tree at check time).

(a) `molgri.scripts.generate_pt.run_generate_pt` as a trace of the pipeline model Molgri.tla.  Nothing inside the process is
observable, so its steps are the ones the script's text prescribes (RuleAct / RuleRead / RuleWrite events, as for the workflow
rules in G08) and what IS observable - the files it leaves - is logged with values: the grid file must be the full-grid array
of the three command-line arguments (built independently in the harness process; Write / Read digests), and the
pseudotrajectory files read back with the package's reader must hold one frame per grid row in row order at the prescribed
rigid placements (CheckPT, the clause of G05).  Both output modes (--as_dir and single file), the deprecated --only_origin
flag (= body grid "zero") and the trajectory extension option are used.

(b) `molgri.scripts.set_up_io` as a state machine over the working directory (IOSetup.tla): Setup creates every missing
folder, never touches what is there, rewrites the package's paths file with the defaults and is idempotent; CopyExamples
sorts the example files by extension / name into the pt and input folders."""
from __future__ import annotations

import os
import random
import shutil
import subprocess

import numpy as np

from ..core import Ctx, quiet
from .c10 import rot_spec_formula, MOLS
from .g05 import write_mol

PY = "/venv/bin/python"
FOLDERS = ["output/data/energies", "output/data/pt_files", "input", "output/figures", "output/animations", "output/data/logging",
           "output/data/autosave", "input/logbook", "output/data/traj_files", "experiments", "molgri/examples"]


def run_cli(pkg, cwd, func, argv, timeout=600):
    mod, fn = func
    code = f"import sys; sys.argv = {['prog'] + list(argv)!r}; from {mod} import {fn} as f; f()"
    env = dict(os.environ, PYTHONPATH=str(pkg), MPLBACKEND="agg", PYTHONWARNINGS="ignore")
    p = subprocess.run([PY, "-c", code], cwd=str(cwd), env=env, capture_output=True, text=True, timeout=timeout)
    return p.returncode, (p.stdout + p.stderr)[-600:]


def pt_run(tid, spec, opts, mols, pkg, d, events):
    import MDAnalysis as mda
    from molgri.space.fullgrid import FullGrid
    from molgri.io import TwoMoleculeReader
    b, o, t = spec
    ev = lambda name, **kw: events.append(dict(tid=tid, ev=name, err="", **kw))
    cwd = d / f"run_{tid}"
    cwd.mkdir()
    (n1, off1), (n2, off2) = mols
    p1, p2 = str(cwd / "m1.xyz"), str(cwd / "m2.xyz")
    ref1 = write_mol(p1, MOLS[n1][0], MOLS[n1][1], off1)
    ref2 = write_mol(p2, MOLS[n2][0], MOLS[n2][1], off2)
    ext = opts.get("ext", "xtc")
    argv = ["-m1", p1, "-m2", p2, "-origingrid", o, "-bodygrid", "12" if opts.get("only_origin") else b, "-transgrid", t]
    argv += ["--only_origin"] if opts.get("only_origin") else []
    argv += ["--as_dir"] if opts.get("as_dir") else []
    argv += ["--extension_trajectory", ext] if ext != "xtc" else []
    ev("NewSpec") if tid > 0 else None
    ev("NewProcess")
    rc, out = run_cli(pkg, cwd, ("molgri.scripts.generate_pt", "run_generate_pt"), argv)
    # the steps the script's text prescribes: GridWriter(...) ; save_full_grid ; PtWriter(path_grid) ; write_full_pt
    ev("RuleAct", act="BuildGrid", rule="generate_pt")
    gfile = cwd / "output/data/autosave/ptgrid.npy"
    if rc != 0 or not gfile.exists():
        events.append(dict(tid=tid, ev="Write", art="array", digest=-1, err=f"exit{rc}"))
        return out
    ev("Write", art="array", digest=1)
    ev("RuleRead", art="array", rule="generate_pt")
    ev("RuleAct", act="GenPT", rule="generate_pt")
    ev("RuleWrite", art="pt", rule="generate_pt")
    # ---- a reader job of the harness
    ev("NewProcess")
    with quiet():
        want = np.asarray(FullGrid("zero" if opts.get("only_origin") else b, o, t).get_full_grid_as_array(), dtype=float)
    got_arr = np.load(gfile)
    ev("Read", art="array", digest=1 if got_arr.shape == want.shape and np.array_equal(got_arr, want) else 2)
    ev("RuleRead", art="pt", rule="reader")
    n = len(want)
    tol3 = {"xtc": 12, "xyz": 2, "trr": 2, "gro": 12}[ext]
    chk = dict(tid=tid, ev="CheckPT", err="", nframes=0, want=int(n), dev3=0, m1dev3=0, tol3=int(tol3), selok=True, structok=True)
    try:
        spath = str(cwd / "structure.gro")
        with quiet():
            if opts.get("as_dir"):
                fd = cwd / f"pseudotrajectory.{ext}"     # --as_dir: the "trajectory" path is used as ... see below
                files = sorted([p for p in fd.iterdir()], key=lambda p: int("".join(c for c in p.stem if c.isdigit()) or 0)) if fd.is_dir() else []
                got = np.array([mda.Universe(str(p)).atoms.positions.copy() for p in files]) if files else np.zeros((0, 0, 3))
                sel = got[:, len(ref1):, :] if len(got) else got
            else:
                rd = TwoMoleculeReader(spath, str(cwd / f"pseudotrajectory.{ext}"))
                u = rd.get_full_pt()
                got = np.array([u.atoms.positions.copy() for _ in u.trajectory])
                ag = rd.get_only_second_molecule_pt(p2)
                sel = np.array([ag.positions.copy() for _ in u.trajectory])
            st = mda.Universe(spath).atoms.positions.copy()
        chk["nframes"] = int(len(got))
        if len(got) == n and got.shape[1] == len(ref1) + len(ref2):
            want2 = np.array([(rot_spec_formula(row[3:]) @ ref2.T).T + row[:3] for row in want])
            chk["dev3"] = int(np.ceil(np.max(np.abs(got[:, len(ref1):, :] - want2)) * 1e3))
            chk["m1dev3"] = int(np.ceil(np.max(np.abs(got[:, :len(ref1), :] - ref1[None, :, :])) * 1e3))
            chk["selok"] = bool(sel.shape == want2.shape and np.max(np.abs(sel - want2)) * 1e3 <= tol3)
            chk["structok"] = bool(st.shape == got[0].shape and np.max(np.abs(st - got[0])) * 1e3 <= 12 + tol3)
        else:
            chk["dev3"] = chk["m1dev3"] = 10 ** 6
    except Exception as ex:
        chk["err"] = type(ex).__name__
    events.append(chk)
    return out


NAMES = ["H2O_ico_12.gro", "NaCl.gro", "traj.xtc", "readme.txt", "mol_ico.pdb", "ICO_upper.gro", "energies.xvg", "frame.xyz", "picoline.gro", "grid.npy",
         "notes_ico.txt", "user_only.dat"]
N_EX = 11      # the first eleven names are example files of the (scratch) package, the last one only ever a user file
WITHIN = {"input": ["input", "input/logbook"], "output/data": [f for f in FOLDERS if f.startswith("output/data/")],
          "output": [f for f in FOLDERS if f.startswith("output/")], "molgri": ["molgri/examples"]}


def io_histories(ctx, rng, pkg, d, n_hist, n_ops):
    """random histories of set_up_io / user operations, each in its own working directory, one subprocess per history"""
    import json
    exdir = pkg / "molgri" / "examples"
    shutil.rmtree(exdir)
    exdir.mkdir()
    for fn in NAMES[:N_EX]:
        (exdir / fn).write_bytes(("example:" + fn).encode())
    (exdir / "sub_ico.gro").mkdir()          # a directory among the examples: not a file, never copied
    examples = [dict(id=i, ext=fn.rsplit(".", 1)[1], ico=("ico" in fn)) for i, fn in enumerate(NAMES[:N_EX])]
    assert "ico" not in str(exdir), "MACHINERY: the scratch path itself contains 'ico' (copy_examples tests the full path)"
    runner = os.path.join(os.path.dirname(__file__), "g15_runner.py")
    committed = (pkg / "molgri" / "paths.py").read_text()
    records, hist = [], []
    for tid in range(n_hist):
        cwd = d / f"io_{tid}"
        cwd.mkdir()
        (pkg / "molgri" / "paths.py").write_text(committed)
        dirs, ops = set(), [dict(op="init")]
        for _ in range(n_ops):
            kind = rng.choice(["Setup", "Setup", "SetupExamples", "Copy", "Add", "Add", "Remove", "Remove", "Edit"])
            if kind == "Add" and dirs:
                ops.append(dict(op="Add", f=rng.choice(sorted(dirs)), id=rng.randrange(len(NAMES))))
            elif kind == "Remove" and dirs:
                roots = [r for r in list(FOLDERS) + list(WITHIN) if any(f in dirs for f in WITHIN.get(r, [r]))]
                r = rng.choice(sorted(set(roots)))
                ops.append(dict(op="Remove", r=r))
                dirs -= set(WITHIN.get(r, [r]))
            elif kind in ("Setup", "SetupExamples"):
                ops.append(dict(op=kind))
                dirs = set(FOLDERS)
            elif kind in ("Copy", "Edit"):
                ops.append(dict(op=kind))
        job, outp = cwd / "job.json", cwd / "out.json"
        job.write_text(json.dumps(dict(tid=tid, names=NAMES, ops=ops, examples=examples)))
        env = dict(os.environ, PYTHONPATH=str(pkg), MPLBACKEND="agg", PYTHONWARNINGS="ignore")
        p = subprocess.run([PY, runner, str(job), str(outp)], cwd=str(cwd), env=env, capture_output=True, text=True, timeout=300)
        if p.returncode != 0 or not outp.exists():
            from ..tlc import MachineryError
            raise MachineryError("set_up_io runner failed: " + (p.stdout + p.stderr)[-800:])
        records += json.loads(outp.read_text())
        hist.append(ops)
        ctx.count(1, nontrivial_key=json.dumps(ops))
    return records, hist


def take_copy(ctx):
    src = os.environ.get("VERIF_REPO", "/repo") + "/molgri"
    pkg = ctx.scratch / "pkg"
    shutil.copytree(src, pkg / "molgri", ignore=shutil.ignore_patterns("__pycache__"))
    return pkg


def run(ctx: Ctx):
    rng = random.Random(ctx.seed)
    ctx.cov["rule"] = ("the CLI entry points as processes on a scratch copy of the package: generate_pt (grid file = grid of the arguments; every frame "
                       "read back against the grid row of the same index) and set_up_io (folder state machine, random histories); non-trivial = distinct "
                       "(arguments) / distinct history")
    pkg = take_copy(ctx)
    d = ctx.scratch / "cli"
    d.mkdir()
    ctx.model("Molgri", "Molgri_quick.cfg", workers=8, note="pipeline model")
    runs = [(("4", "5", "[0.2, 0.35]"), {}), (("cube4D_3", "ico_7", "linspace(0.2, 0.4, 2)"), {"ext": "xyz"}), (("9", "3", "[0.25]"), {"only_origin": True})]
    if ctx.tier == "thorough":
        runs += [(("8", "12", "range(0.2, 0.5, 0.1)"), {"ext": "trr"}), (("zero", "cube3D_6", "[0.3, 0.6]"), {}), (("randomQ_6", "1", "[0.2, 0.3, 0.4]"), {"ext": "xyz"})]
    names = ["generic4", "planar3", "five", "linear2", "single"]
    events = []
    for tid, (spec, opts) in enumerate(runs):
        n1, n2 = rng.choice(names), rng.choice(["generic4", "five", "planar3"])
        while len(MOLS[n1][1]) == len(MOLS[n2][1]):
            n1 = rng.choice(names)
        mols = ((n1, [rng.uniform(-9, 9) for _ in range(3)]), (n2, [rng.uniform(-9, 9) for _ in range(3)]))
        pt_run(tid, spec, opts, mols, pkg, d, events)
        ctx.count(1, nontrivial_key=(spec, tuple(sorted(opts.items()))))
    cfg = ctx.cfg("mt.cfg", f"SPECIFICATION TraceSpec\nCONSTANTS\n  Specs = {{{', '.join(str(i) for i in range(len(runs)))}}}\n  Bug = \"none\"\n"
                            "INVARIANT OneCellOrder\nINVARIANT DirectoriesArePure\nINVARIANT MemoryIsCurrent\nINVARIANT ReadIsWriteAndRateConsistent\n"
                            "POSTCONDITION AllConsumed\n")
    for tid, clause, k in ctx.validate("Molgri_Trace", cfg, events, name="cli_pt", count_traces=len(runs)):
        ctx.violation(f"generate_pt {runs[tid][0]} {runs[tid][1]}: {clause}", dict(clause=clause, event=events[k - 1]))
    ctx.sample([e for e in events if e["tid"] == 0])
    # ---- (b) set_up_io as a state machine over the working directory
    mcfg = ("SPECIFICATION Spec\nCONSTANTS\n  Examples <- ExamplesSmall\n  UserIds = {{1, 7}}\n  UseFolders = {{\"input\", \"output/data/pt_files\", \"experiments\"}}\n"
            "  UseRoots = {{\"output\", \"input\", \"output/data/pt_files\"}}\n  MaxSteps = {n}\n  Bug = \"{b}\"\n{props}CHECK_DEADLOCK FALSE\n")
    allp = ("INVARIANT AfterSetupEverythingIsThere\nINVARIANT FilesLieInExistingFolders\nPROPERTY SetupKeepsWhatIsThere\nPROPERTY SetupIsIdempotent\n"
            "PROPERTY ExamplesAreSorted\n")
    ctx.model("IOSetup", ctx.cfg("io.cfg", mcfg.format(n=7 if ctx.tier == "thorough" else 6, b="none", props=allp)), workers=8,
              note="all histories of Setup / CopyExamples / user operations up to the step bound")
    ctx.mutant("IOSetup", ctx.cfg("io_m1.cfg", mcfg.format(n=4, b="setupEmpties", props="PROPERTY SetupKeepsWhatIsThere\n")), "SetupKeepsWhatIsThere")
    ctx.mutant("IOSetup", ctx.cfg("io_m2.cfg", mcfg.format(n=4, b="everyGroIsPt", props="PROPERTY ExamplesAreSorted\n")), "ExamplesAreSorted")
    records, hist = io_histories(ctx, rng, pkg, d, 24 if ctx.tier == "thorough" else 8, 9)
    for i, r in enumerate(records):
        r["k"] = i
    for tid, clause, k in ctx.validate("IOSetup_Trace", "IOSetup_Trace.cfg", records, name="cli_io", count_traces=len(hist)):
        upto = [r["op"] for r in records if r["tid"] == tid and r["k"] < k]
        ctx.violation(f"set_up_io history {hist[tid]}: {clause}", dict(clause=clause, ops_so_far=upto, record=records[k - 1] if k else None))
    ctx.sample(hist[0])
    shutil.rmtree(d, ignore_errors=True)
    shutil.rmtree(pkg, ignore_errors=True)
