"""C17 — grid names normalise to one valid (algorithm, N) or are rejected with ValueError.

Model: spec/GridName.tla (reference normalisation table inside the relation Universal/Forced for all
names of up to 3 (quick) / 4 tokens).  Conformance C->S: the real GridNameParser is run on EVERY
(name, role) of the same domain and every outcome is validated by TLC (GridName_Trace)."""
from __future__ import annotations

import itertools

from ..core import Ctx, quiet, MachineryError

TOKENS = ["ico", "cube3D", "randomS", "cube4D", "randomQ", "fulldiv", "zero3D", "zero4D", "zero",
          "0", "1", "2", "7", "15", "007", "-5", "none", "None", "junk"]


def cfg_text(maxlen, bug="none", invs=("UniversalHolds", "ForcedHolds", "Idempotent", "RelationConsistent")):
    return (f"SPECIFICATION Spec\nCONSTANTS\n  MaxLen = {maxlen}\n  Bug = \"{bug}\"\n" + "".join(f"INVARIANT {i}\n" for i in invs))


def parse(name: str, role: str):
    from molgri.naming import GridNameParser
    try:
        with quiet():
            p = GridNameParser(name, role)
            alg, n, std = p.get_alg(), p.get_N(), p.get_standard_grid_name()
        if not isinstance(n, int) or not isinstance(alg, str) or std != f"{alg}_{n}":
            return dict(kind="OtherError", cls=f"malformed result {alg!r} {n!r} {std!r}")
        return dict(kind="Std", alg=alg, n=int(n))
    except ValueError:
        return dict(kind="ValueError")
    except Exception as ex:
        return dict(kind="OtherError", cls=type(ex).__name__)


_built = {}


def build(alg, n, role):
    """rows of the grid constructed from the standard name; -1 ValueError, -2 other error"""
    key = (alg, n, role)
    if key in _built:
        return _built[key]
    from molgri.space.rotobj import SphereGridFactory
    try:
        with quiet():
            g = SphereGridFactory.create(alg_name=alg, N=n, dimensions=3 if role == "o" else 4)
            rows = len(g.get_grid_as_array(only_upper=True)) if role == "b" else len(g.get_grid_as_array())
    except ValueError:
        rows = -1
    except Exception:
        rows = -2
    _built[key] = rows
    return rows


def run(ctx: Ctx):
    thorough = ctx.tier == "thorough"
    maxlen = 4 if thorough else 3
    ctx.cov["rule"] = (f"every name of 1..{maxlen} tokens from a 19-token alphabet (all algorithm names of both roles, zero "
                       "names, integers 0/1/>1/padded/negative, none/None, junk) in every order x both roles, run through the "
                       "real GridNameParser; non-trivial = distinct (name, role)")
    r = ctx.model("GridName", ctx.cfg("gn.cfg", cfg_text(3)), coverage_required=["Parse", "Reparse"], workers=8,
                  note="reference table within the relation; idempotence; all names up to 3 tokens")
    n_model = r.coverage["Init"][0]
    ctx.mutant("GridName", ctx.cfg("gn_m1.cfg", cfg_text(2, "rolesSwapped", ["ForcedHolds"])), "ForcedHolds")
    ctx.mutant("GridName", ctx.cfg("gn_m2.cfg", cfg_text(2, "oneNotZero", ["UniversalHolds"])), "UniversalHolds")

    recs = []
    for L in range(1, maxlen + 1):
        for toks in itertools.product(TOKENS, repeat=L):
            name = "_".join(toks)
            for role in ("o", "b"):
                out = parse(name, role)
                if out["kind"] == "Std":
                    re = parse(f"{out['alg']}_{out['n']}", role)
                    built = build(out["alg"], out["n"], role) if out["n"] <= 15 else -3
                else:
                    re, built = dict(kind="skip"), -3
                recs.append(dict(name=list(toks), role=role, out=out, re=re, built=built))
    if maxlen == 3 and len(recs) != n_model:
        raise MachineryError(f"driver enumerated {len(recs)} names, the model has {n_model} initial states")
    if maxlen == 3:
        # a sample of longer names (the thorough tier enumerates all names of 4 tokens): the decision must not depend on where
        # in the name a token stands
        import random as _r
        rng = _r.Random(ctx.seed)
        for _ in range(6000):
            toks = tuple(rng.choice(TOKENS) for _ in range(rng.choice([4, 4, 5])))
            name = "_".join(toks)
            role = rng.choice(["o", "b"])
            out = parse(name, role)
            re = parse(f"{out['alg']}_{out['n']}", role) if out["kind"] == "Std" else dict(kind="skip")
            recs.append(dict(name=list(toks), role=role, out=out, re=re, built=-3))
    for i, rec in enumerate(recs):
        rec["tid"] = i
    chunk = 60000
    for c0 in range(0, len(recs), chunk):
        rejects = ctx.validate("GridName_Trace", "GridName_Trace.cfg", recs[c0:c0 + chunk], name=f"gn_{c0}", timeout=1800)
        for tid, clause, _ in rejects:
            rec = recs[tid]
            ctx.violation(f"GridNameParser('{'_'.join(rec['name'])}', '{rec['role']}')", dict(record=rec, clause=clause))
    ctx.count(len(recs))
    ctx._nontrivial.update(range(len(recs)))
    ctx.cov["exhaustive"] = True
    ctx.cov["grids_constructed"] = len(_built)
    ctx.sample(recs[7])
    ctx.sample(recs[len(recs) // 2])
    ctx.sample(recs[-5])
