"""G06 (growth) — FullGrid.get_full_prefactors = S_nm / (h_nm V_n) entry by entry, and asking for it leaves the grid's
other answers unchanged.  Same records and trace spec as C02 (spec/Product_Trace.tla, clause PrefClause); a failure of a
C02 clause on these grids is reported by C02's own check, here only the prefactor clauses are attributed to G06."""
from __future__ import annotations

import random

from ..core import Ctx
from .c02 import record, cfg_text


def run(ctx: Ctx):
    rng = random.Random(ctx.seed)
    ctx.cov["rule"] = "real FullGrids (both position modes, factors 0.5/1/2); every stored entry of the prefactor matrix; non-trivial = distinct grid"
    ctx.model("Product", ctx.cfg("prod.cfg", cfg_text()), workers=16, note="block assembly = product (the matrices the prefactor divides)")
    grids = [("4", "5", "[0.2, 0.3, 0.45]", False, 2), ("1", "4", "[0.2, 0.35]", False, 2), ("8", "7", "[0.15, 0.3]", False, 1),
             ("randomQ_5", "randomS_12", "[0.2, 0.3]", False, 0.5), ("5", "12", "[0.2, 0.3]", True, 2), ("cube4D_9", "cube3D_9", "[0.2, 0.3, 0.5]", False, 2)]
    if ctx.tier == "thorough":
        for _ in range(12):
            grids.append((f"{rng.choice(['', 'cube4D_', 'randomQ_'])}{rng.choice([1, 4, 5, 8, 12])}",
                          f"{rng.choice(['', 'ico_', 'cube3D_'])}{rng.choice([5, 7, 12, 20])}",
                          str(sorted(rng.sample([0.15, 0.2, 0.3, 0.4, 0.6], rng.choice([2, 3])))), rng.random() < 0.3, rng.choice([1, 2, 0.5])))
    recs = []
    for k, (b, o, t, cart, f) in enumerate(grids):
        recs.append(record(b, o, t, cart, f, partial_first=bool(k % 2), with_pref=True))
        ctx.count(1, nontrivial_key=(b, o, t, cart, f))
    for i, r in enumerate(recs):
        r["tid"] = i
    rejects = ctx.validate("Product_Trace", "Product_Trace.cfg", recs, name="prefactors", timeout=2400)
    for tid, clause, _ in rejects:
        r = recs[tid]
        ctx.violation(f"FullGrid(b='{r['b']}', o='{r['o']}', t='{r['t']}', cartesian={r['cartesian']}, factor={r['f']}): {clause}",
                      dict(grid=[r["b"], r["o"], r["t"], r["cartesian"], r["f"]], clause=clause))
    ctx.sample(dict(grid=[recs[0]["b"], recs[0]["o"], recs[0]["t"]], pref_head=recs[0].get("pref", [])[:4], table_head=recs[0].get("prefT", [])[:4]))
