"""G08 (growth) — the pipeline model is bound to the workflow FILES: the Snakemake rule files workflow/run_grid, run_sqra
and run_msm are parsed as text (rule names, named outputs, every `rules.X.output.Y` reference or literal path equal to
another rule's output path in the input sections).  (1) spec/Workflow_Trace.tla checks the structure of each rule graph
(unique names, references resolve, acyclic).  (2) From the DECLARED dependencies a trace of Molgri.tla is derived - every
mapped rule is a job of its own: NewProcess, one Read per declared input artefact, the rule's action, one Write per
output artefact - and validated by Molgri_Trace: an action whose guard in the pipeline model is not satisfied by what the
rule declares as input is rejected (e.g. run_sqra without the volumes file, the decomposition before the rate matrix)."""
from __future__ import annotations

import os
import re

from ..core import Ctx

SECTION = re.compile(r"^    (\w+):\s*(.*)$")
OUT_ART = {       # rule -> (action of Molgri.tla, {output name -> artefact})
    "run_grid": ("BuildGrid", dict(full_array="array", adjacency_array="adjacency", distances_array="distances", borders_array="borders", volumes="volumes")),
    "run_pt": ("GenPT", dict(trajectory="pt")),
    "gromacs_rerun": ("ComputeEnergy", dict(energy="energy")),
    "run_sqra": ("BuildRate", dict(rate_matrix="rate")),
    "run_decomposition": ("Decompose", dict(eigenvectors="eig")),
    "run_msm_gromacs": ("Simulate", dict(trajectory="traj")),
    "run_trajectory_assignment": ("Assign", dict(assignments="assign")),
    "run_msm_matrix": ("BuildMsm", dict(transition_matrix="msm")),
    "run_decomposition_msm": ("Decompose", dict(eigenvectors="eig")),
}


def parse(path):
    rules, order, cur, sec = {}, [], None, None
    for line in open(path).read().split("\n"):
        m = re.match(r"^rule (\w+):", line)
        if m:
            cur, sec = m.group(1), None
            rules[cur] = dict(input="", output="")
            order.append(cur)
            continue
        if cur is None:
            continue
        if line and not line.startswith((" ", "#")):
            cur = None
            continue
        m = SECTION.match(line)
        if m:
            sec = m.group(1)
        if sec in ("input", "output"):
            rules[cur][sec] += line + "\n"
    out = []
    for name in order:
        d = rules[name]
        entries = lambda text: [(m.group(1), re.sub(r"\s+", "", m.group(2)).rstrip(",")) for m in re.finditer(r"^\s{8}(\w+)\s*=\s*(.*)$", text, re.M)]
        out.append(dict(name=name, outs=entries(d["output"]), ins_text=d["input"], ins_entries=entries(d["input"])))
    return out


def graph(rules):
    """resolve references: rules.X.output.Y anywhere in the input section, or an input expression equal to an output expression"""
    path_of = {}
    for r in rules:
        for o, expr in r["outs"]:
            path_of.setdefault(expr, []).append((r["name"], o))
    res = []
    for r in rules:
        ins = [list(x) for x in dict.fromkeys(re.findall(r"rules\.(\w+)\.output\.(\w+)", r["ins_text"]))]
        for _, expr in r["ins_entries"]:
            for prod in path_of.get(expr, []):
                if prod[0] != r["name"] and list(prod) not in ins:
                    ins.append(list(prod))
        res.append(dict(name=r["name"], outs=[o for o, _ in r["outs"]], ins=ins))
    return res


def topo(rules):
    done, order = set(), []
    names = {r["name"] for r in rules}
    while len(order) < len(rules):
        progressed = False
        for r in rules:
            if r["name"] not in done and all(d[0] in done or d[0] not in names for d in r["ins"]):
                done.add(r["name"])
                order.append(r)
                progressed = True
        if not progressed:          # cyclic: the graph spec reports it; emit the rest in file order
            order += [r for r in rules if r["name"] not in done]
            break
    return order


def derive(tid, rules, events):
    if tid > 0:
        events.append(dict(tid=tid, ev="NewSpec", err=""))
    for r in topo(rules):
        if r["name"] not in OUT_ART:
            continue
        act, outmap = OUT_ART[r["name"]]
        events.append(dict(tid=tid, ev="NewProcess", err="", rule=r["name"]))
        seen = []
        for prod, o in r["ins"]:
            art = OUT_ART.get(prod, (None, {}))[1].get(o)
            if art and art not in seen:
                seen.append(art)
                events.append(dict(tid=tid, ev="RuleRead", err="", rule=r["name"], art=art))
        events.append(dict(tid=tid, ev="RuleAct", err="", rule=r["name"], act=act))
        for o in r["outs"]:
            if o in outmap:
                events.append(dict(tid=tid, ev="RuleWrite", err="", rule=r["name"], art=outmap[o]))


def run(ctx: Ctx):
    wf = os.environ.get("VERIF_REPO", "/repo") + "/workflow/"
    ctx.cov["rule"] = "the rule files as they are (run_grid + run_sqra, run_grid + run_msm: structure and derived traces; Snakefile, run_orca, run_records: structure); non-trivial = a rule"
    ctx.model("Molgri", "Molgri_quick.cfg", workers=8, note="pipeline model incl. NewProcess (every rule a job of its own)")
    recs, events, flows = [], [], []
    for tid, files in enumerate((["run_grid", "run_sqra"], ["run_grid", "run_msm"])):
        rec = dict(tid=tid, file=files[-1], rules=[], err="")
        try:
            rules = graph([r for f in files for r in parse(wf + f)])
            rec["rules"] = rules
            derive(tid, rules, events)
            for r in rules:
                ctx.count(1, nontrivial_key=(files[-1], r["name"]))
        except Exception as ex:
            rec["err"] = type(ex).__name__
        recs.append(rec)
        flows.append(files[-1])
    # the remaining rule files: structure only (they drive experiments / ORCA optimisations, no action of the pipeline model)
    for files in (["Snakefile"], ["run_orca"], ["run_records"]):
        rec = dict(tid=len(recs), file=files[-1], rules=[], err="")
        try:
            rec["rules"] = graph([r for f in files for r in parse(wf + f)])
            for r in rec["rules"]:
                ctx.count(1, nontrivial_key=(files[-1], r["name"]))
        except Exception as ex:
            rec["err"] = type(ex).__name__
        recs.append(rec)
        flows.append(files[-1])
    for tid, clause, _ in ctx.validate("Workflow_Trace", "Workflow_Trace.cfg", recs, name="rulegraph"):
        ctx.violation(f"workflow/{flows[tid]}: {clause}", dict(clause=clause))
    mapped = {e["rule"] for e in events if "rule" in e}
    for name in OUT_ART:
        if name not in mapped:
            ctx.violation(f"workflow: rule {name} (action {OUT_ART[name][0]} of the pipeline model) is no longer in the rule files", dict(rule=name))
    cfg = ctx.cfg("mt.cfg", "SPECIFICATION TraceSpec\nCONSTANTS\n  Specs = {0, 1}\n  Bug = \"none\"\nINVARIANT OneCellOrder\nINVARIANT DirectoriesArePure\n"
                            "INVARIANT MemoryIsCurrent\nINVARIANT ReadIsWriteAndRateConsistent\nPOSTCONDITION AllConsumed\n")
    for tid, clause, k in ctx.validate("Molgri_Trace", cfg, events, name="derived", count_traces=2):
        e = events[k - 1]
        ctx.violation(f"workflow/{flows[tid]} rule {e.get('rule')}: {clause}", dict(clause=clause, event=e))
    ctx.sample([e for e in events if e.get("rule") == "run_sqra"])
    ctx.cov["rules_mapped_to_actions"] = sorted(mapped)
