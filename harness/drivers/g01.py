"""G01 (growth, DESIGN §5) — graph helpers second_neighbours / third_neighbours / remove_and_reconnect.

Model: spec/Graphs.tla (all graphs on 5 nodes: the implementation's neighbour-of-neighbour scans equal
graph distance 2 / 3; reconnection never increases distances).  C->S: the real helpers on ALL graphs
with up to 5 nodes and every node, with distinct edge weights."""
from __future__ import annotations

import itertools

import networkx as nx

from ..core import Ctx, quiet


def record(n, edges, v):
    from molgri.space.polytopes import second_neighbours, third_neighbours, remove_and_reconnect
    G = nx.Graph()
    G.add_nodes_from(range(n))
    w = []
    for k, (a, b) in enumerate(edges):
        G.add_edge(a, b, p_dist=2 ** k)
        w.append(2 ** k)
    rec = dict(n=n, edges=[list(e) for e in edges], w=w, v=v, second=[], third=[], after=[], err="")
    try:
        with quiet():
            rec["second"] = [int(x) for x in second_neighbours(G, v)]
            rec["third"] = [int(x) for x in third_neighbours(G, v)]
            H = G.copy()
            remove_and_reconnect(H, v)
            rec["after"] = [[int(a), int(b), int(d["p_dist"])] for a, b, d in H.edges(data=True)]
            if v in H.nodes:
                rec["err"] = "node not removed"
    except Exception as ex:
        rec["err"] = type(ex).__name__
    return rec


def run(ctx: Ctx):
    ctx.cov["rule"] = "all undirected graphs on 2..5 labelled nodes x every node, distinct power-of-two edge weights; non-trivial = distinct (graph, node)"
    ctx.model("Graphs", "Graphs.cfg", workers=8, note="all 1024 graphs on 5 nodes")
    recs = []
    for n in (2, 3, 4, 5):
        pairs = list(itertools.combinations(range(n), 2))
        for r in range(len(pairs) + 1):
            for edges in itertools.combinations(pairs, r):
                for v in range(n):
                    if ctx.tier == "quick" and n == 5 and (len(recs) % 3):
                        recs.append(None)
                        continue
                    recs.append(record(n, edges, v))
    recs = [r for r in recs if r is not None]
    for i, r in enumerate(recs):
        r["tid"] = i
        ctx.count(1, nontrivial_key=i)
    rejects = ctx.validate("Graphs_Trace", "Graphs_Trace.cfg", recs, name="graphs", timeout=1800)
    for tid, clause, _ in rejects:
        r = recs[tid]
        ctx.violation(f"graph n={r['n']} edges={r['edges']} node={r['v']}: {clause}", dict(record=r, clause=clause))
    ctx.sample(recs[len(recs) // 2])
    ctx.cov["exhaustive"] = True
