"""C11 — frame assignment equals geometric membership in the grid cell.

Spec: spec/Assign.tla (arg-min decisions with uniqueness margin, index composition, outlier rule; model:
nearest radius = containing shell for all integer radial grids).  C->S: the driver generates rigid
placements itself (continuous random rotations and positions, and the grid's own rows), builds the frames
with MDAnalysis directly, lets the real AssignmentTool assign them, and logs for every frame the distance
of the TRUE placement to every radius / direction / grid rotation; Assign_Trace decides the cell."""
from __future__ import annotations

import math
import random

import numpy as np

from ..core import Ctx, quiet
from ..project import fixed
from .c10 import write_xyz, MOLS, UNIT

MOL2 = {
    "generic4": ("C", [(300, 100, 0), (-100, 200, 100), (-100, -100, 200), (-100, -200, -300)]),
    "planar4": ("C", [(250, 30, 0), (-120, 210, 0), (-90, -160, 0), (-40, -80, 0)]),
    "five": ("C", [(150, 20, 0), (10, 180, 0), (0, 30, 150), (-100, -130, -50), (-60, -100, -100)]),
}
# planar, three distinct principal moments, ONE atom on a principal axis (the apex of an isosceles triangle - water's shape):
# the other two atoms determine every sign; the atom ORDER in the file must not matter
MOL2_EXTRA = {
    "apexfirst3": ("C", [(0, 0, 80), (0, 90, -40), (0, -90, -40)]),
    "apexlast3": ("C", [(0, 90, -40), (0, -90, -40), (0, 0, 80)]),
}


def quat_to_matrix(q):
    x, y, z, w = q
    return np.array([[1 - 2 * (y * y + z * z), 2 * (x * y - z * w), 2 * (x * z + y * w)],
                     [2 * (x * y + z * w), 1 - 2 * (x * x + z * z), 2 * (y * z - x * w)],
                     [2 * (x * z - y * w), 2 * (y * z + x * w), 1 - 2 * (x * x + y * y)]])


def random_quat(rng):
    v = np.array([rng.gauss(0, 1) for _ in range(4)])
    return v / np.linalg.norm(v)


def run_grid(ctx, rng, spec, molname, nframes, outliers, d, use_pt=False, shift=(0.0, 0.0, 0.0)):
    import MDAnalysis as mda
    from MDAnalysis.coordinates.memory import MemoryReader
    from molgri.space.fullgrid import FullGrid
    from molgri.io import OneMoleculeReader
    from molgri.molecules.transitions import AssignmentTool
    b, o, t = spec
    el, coords = (MOL2 | MOL2_EXTRA)[molname]
    p1, p2 = str(d / "m1.xyz"), str(d / f"{molname}.xyz")
    write_xyz(p1, "N", [(0, 0, 0)])
    write_xyz(p2, el, coords)
    with quiet():
        fg = FullGrid(b, o, t)
        arr = np.asarray(fg.get_full_grid_as_array())
        og = np.asarray(fg.get_position_grid().get_o_grid().get_grid_as_array())
        bg = np.asarray(fg.b_rotations.get_grid_as_array(only_upper=True))
        tg = np.asarray(fg.get_position_grid().get_radii(), dtype=float)
        m1 = OneMoleculeReader(p1).get_molecule()
        m2 = OneMoleculeReader(p2).get_molecule()
        ref = m2.atoms.positions.astype(float).copy()
    bound = tg[-1] + 0.5 * (tg[-1] - tg[-2])
    placements = []
    for row in arr[rng.sample(range(len(arr)), min(len(arr), nframes // 4))]:        # the grid's own rows
        placements.append((row[:3].copy(), row[3:].copy() / np.linalg.norm(row[3:])))
    while len(placements) < nframes:                                                # continuous random placements
        # a third of them within +-12 % of the outermost shell boundary (the NaN decision), the rest anywhere
        r = rng.uniform(0.88 * bound, 1.12 * bound) if rng.random() < 0.33 else rng.uniform(0.6 * tg[0], 1.2 * bound)
        v = np.array([rng.gauss(0, 1) for _ in range(3)])
        placements.append((v / np.linalg.norm(v) * r, random_quat(rng)))
    if use_pt:
        # the package's own pseudotrajectory of the whole grid, in row order: must be assigned back to 0, 1, 2, ...
        from molgri.molecules.pts import Pseudotrajectory
        placements = [(row[:3].copy(), row[3:].copy() / np.linalg.norm(row[3:])) for row in arr]
        with quiet():
            u = Pseudotrajectory(m1, m2, arr).get_pt_as_universe()
    else:
        frames = np.zeros((len(placements), 1 + len(ref), 3), dtype=np.float32)
        for k, (p, q) in enumerate(placements):
            frames[k, 1:] = (quat_to_matrix(q) @ ref.T).T + p
        frames += np.array(shift, dtype=np.float32)          # the whole system somewhere in the box: molecule 1 is not at the origin
        merged = mda.Merge(m1.atoms, m2.atoms)
        u = mda.Universe(merged._topology, frames, format=MemoryReader)
    recs = []
    err, got = "", None
    try:
        with quiet():
            got = np.asarray(AssignmentTool(arr, u, m2, include_outliers=outliers).get_full_assignments(), dtype=float)
        if got.shape != (len(placements),):
            err = f"result shape {got.shape}"
    except Exception as ex:
        err = type(ex).__name__
    for k, (p, q) in enumerate(placements):
        nrm = float(np.linalg.norm(p))
        dT = [fixed(abs(x - nrm)) for x in tg]
        cosO = np.clip(og @ (p / nrm), -1, 1)
        dO = [fixed(math.acos(c)) for c in cosO]
        cosB = np.clip(np.abs(bg @ q), 0, 1)
        dB = [fixed(2 * math.acos(c)) for c in cosB]
        g = -1
        if not err:
            g = -1 if np.isnan(got[k]) else int(round(got[k]))
        recs.append(dict(grid=list(spec), mol=molname, frame=k, dT=dT, dO=dO, dB=dB, norm6=fixed(nrm), bound6=fixed(bound),
                         outliers=outliers, got=g, err=err, placement=[[float(x) for x in p], [float(x) for x in q]]))
    return recs


def run(ctx: Ctx):
    thorough = ctx.tier == "thorough"
    rng = random.Random(ctx.seed)
    ctx.cov["rule"] = ("real grids (direction x rotation algorithms, n_t in {2,3}) x three second molecules with three distinct principal "
                       "moments (planar one included); per grid a quarter of the frames are the grid's own rows, the rest continuous "
                       "random rotations and positions up to 1.2 x the outer boundary; both outlier modes; "
                       "non-trivial = frame whose three decisions are unique beyond the margin")
    ctx.assumptions += ["placements closer than 2e-3 (A / rad) to a cell boundary are unconstrained (the answer is not unique there)",
                        "molecules without an atom on a principal axis (see DESIGN: candidate finding F12 is tracked separately)"]
    ctx.model("Assign", "Assign.cfg", workers=8, note="nearest radius = containing shell, all integer radial grids from a pool")
    grids = [("8", "7", "[0.2, 0.35]"), ("cube4D_9", "cube3D_9", "[0.2, 0.3, 0.45]"), ("randomQ_6", "randomS_12", "[0.25, 0.4, 0.45]"),
             ("5", "12", "[0.15, 0.3, 0.4]")]
    if thorough:
        grids += [("12", "20", "[0.2, 0.3]"), ("randomQ_10", "ico_13", "[0.3, 0.5, 0.6]"), ("cube4D_16", "randomS_7", "[0.2, 0.4]"),
                  ("4", "4", "[0.2, 0.3]"), ("fulldiv_8", "cube3D_8", "[0.2, 0.3, 0.5]"), ("1", "12", "[0.2, 0.3]")]
    nframes = 400 if thorough else 120
    d = ctx.scratch / "asg"
    d.mkdir()
    recs = []
    mols = list(MOL2)
    for gi, spec in enumerate(grids):
        for mi, molname in enumerate(mols if thorough else [mols[gi % len(mols)]]):
            shift = [(0.0, 0.0, 0.0), (0.9, -0.6, 0.4), (15.0, 15.0, 15.0)][(gi + mi) % 3]
            # outliers included only for the first grid, so that every non-equidistant radial grid exercises the NaN rule
            recs += run_grid(ctx, rng, spec, molname, nframes, outliers=bool(gi == 0 and mi == 0), d=d, shift=shift)
    # a planar second molecule far from the origin (any real MD box): float32 coordinates carry ~1e-6 A of noise there, which
    # must not decide the handedness of the principal-axis frame
    recs += run_grid(ctx, rng, ("8", "7", "[0.2, 0.35]"), "planar4", nframes, outliers=False, d=d, shift=(40.0, 40.0, 40.0))
    # water-shaped molecules in both atom orders
    for molname in MOL2_EXTRA:
        recs += run_grid(ctx, rng, ("5", "7", "[0.2, 0.35]"), molname, nframes // 2, outliers=False, d=d, shift=(0.9, -0.6, 0.4))
    # the grid's own pseudotrajectory (real Pseudotrajectory class), every row
    recs += run_grid(ctx, rng, ("5", "7", "[0.2, 0.35]"), "generic4", 0, outliers=False, d=d, use_pt=True)
    if thorough:
        recs += run_grid(ctx, rng, ("cube4D_9", "cube3D_9", "[0.2, 0.3, 0.45]"), "five", 0, outliers=True, d=d, use_pt=True)
    for i, r in enumerate(recs):
        r["tid"] = i
    slim = [{k: v for k, v in r.items() if k != "placement"} for r in recs]
    rejects = ctx.validate("Assign_Trace", "Assign_Trace.cfg", slim, name="assign", timeout=1800)
    for tid, clause, _ in rejects:
        r = recs[tid]
        ctx.violation(f"AssignmentTool grid={r['grid']} molecule={r['mol']} frame={r['frame']} placement={np.round(r['placement'][0], 4).tolist()}: {clause}",
                      dict(record=r, clause=clause))
    for r in recs:
        gaps = [sorted(t)[1] - sorted(t)[0] if len(t) > 1 else 10 ** 9 for t in (r["dT"], r["dO"], r["dB"])]
        ctx.count(1, nontrivial_key=r["tid"] if min(gaps) >= 2000 else None)
    ctx.sample({k: v for k, v in recs[0].items()})
    import shutil
    shutil.rmtree(d, ignore_errors=True)
