"""C06 — Cartesian position mode reports the Euclidean Voronoi cell geometry.

Mechanism: spec/Polygon.tla is an exact operational model of order_points + get_polygon_area on convex
lattice polygons (keys compared exactly); TLC checks it against the shoelace area for ALL convex lattice
polygons of a window and every choice of first and second vertex; with the pinned tree's sign(0) rule it
returns the counterexample.  The same polygons, embedded in three planes, are replayed into the real
functions (S->C) and validated by Cartesian_Trace.
Grids: PositionGrid(..., position_grid_cartesian=True) against the brute-force R^3 oracle."""
from __future__ import annotations

import itertools
import json
import random

import numpy as np

from ..core import Ctx, quiet, MachineryError
from ..oracles.r3 import geometry
from ..project import ValueClasses

EMBED = [  # integer affine maps (x, y) -> R^3 with integer area scale
    (lambda x, y: (x, y, 0), 1),
    (lambda x, y: (5, 3 * x, 4 * y), 12),
    (lambda x, y: (x + 2 * y + 1, 2 * x + y, 2 * x - 2 * y - 3), 9),
    # long narrow faces (thin radial shells): corners a degree or two apart as seen from the face centre
    (lambda x, y: (40 * x, y, 2), 40),
    (lambda x, y: (3, y, 50 * x), 50),          # (area scale x twice the lattice area x 1e6 must stay below 2^31 for TLC)
]


def cross(o, a, b):
    return (a[0] - o[0]) * (b[1] - o[1]) - (a[1] - o[1]) * (b[0] - o[0])


def hull_ccw(pts):
    pts = sorted(pts)
    lo = []
    for p in pts:
        while len(lo) >= 2 and cross(lo[-2], lo[-1], p) <= 0:
            lo.pop()
        lo.append(p)
    up = []
    for p in reversed(pts):
        while len(up) >= 2 and cross(up[-2], up[-1], p) <= 0:
            up.pop()
        up.append(p)
    return lo[:-1] + up[:-1]


def convex_polygons(W, maxv):
    P = [(x, y) for x in range(W + 1) for y in range(W + 1)]
    out = []
    for n in range(3, maxv + 1):
        for sub in itertools.combinations(P, n):
            h = hull_ccw(list(sub))
            if len(h) == n:
                out.append([list(p) for p in h])
    return out


def poly_records(polys, rng, per_poly):
    from molgri.space.utils import order_points, get_polygon_area
    recs = []
    for p in polys:
        n = len(p)
        firsts = [(a, b) for a in range(n) for b in range(n) if a != b]
        for (a, b) in (firsts if per_poly is None else rng.sample(firsts, min(per_poly, len(firsts)))):
            rest = [i for i in range(n) if i not in (a, b)]
            order = [a, b] + rest
            flat = [p[i] for i in order]
            fmap, scale = EMBED[rng.randrange(len(EMBED))]
            size = rng.choice([1.0, 1.0, 1e-3, 37.5])          # the face may be picometres or tens of Angstroms across
            pts = np.array([fmap(x, y) for x, y in flat], dtype=float) * size
            rec = dict(kind="Poly", ccw=p, flat=flat, scale6=scale * 10 ** 6, area2got6=0, err="", size=size)
            try:
                with quiet():
                    rec["area2got6"] = int(round(2 * float(get_polygon_area(order_points(pts))) / size ** 2 * 1e6))
            except Exception as ex:
                rec["err"] = type(ex).__name__
            recs.append(rec)
    return recs


def grid_record(o, t):
    from molgri.space.fullgrid import PositionGrid
    rec = dict(kind="Grid", o=o, t=t, n=0, vol=[], ovol=[], bounded=[], volPositive=True, adj=[], borders=[], dists=[], faces=[],
               entryPositive=True, err="")
    try:
        with quiet():
            pg = PositionGrid(o, t, position_grid_cartesian=True)
            vol = np.asarray(pg.get_all_position_volumes(), dtype=float)
            A = pg.get_adjacency_of_position_grid().tocoo()
            B = pg.get_borders_of_position_grid().tocoo()
            D = pg.get_distances_of_position_grid().tocoo()
            ext = np.asarray(pg.voronoi_cells.points, dtype=float)
            pts = np.asarray(pg.get_position_grid_as_array(), dtype=float)
    except Exception as ex:
        rec["err"] = "exception:" + type(ex).__name__
        return rec
    n = len(vol)
    rec["n"] = n
    # the point set "extended by one extra outer shell": the shell continues the last increment of the radial grid
    # (increments = first radius followed by the differences, C16), built here from the grid's own radii and directions
    radii = np.asarray(pg.get_radii(), dtype=float)
    dirs = np.asarray(pg.get_o_grid().get_grid_as_array(), dtype=float)
    last_inc = radii[-1] - radii[-2] if len(radii) > 1 else radii[0]
    mine = np.concatenate([dirs * r for r in list(radii) + [radii[-1] + last_inc]])
    if mine.shape != ext.shape or not np.allclose(mine[:n], pts):
        raise MachineryError("grid points of the driver and of the implementation differ")
    if not np.allclose(mine, ext, atol=1e-9):
        rec["err"] = "the extra outer shell is not at the last radius plus the last increment"
        return rec
    g = geometry(mine, n)
    vc = ValueClasses(rel=1e-7, abs_=1e-9)
    fa = [(i, j, a, float(np.linalg.norm(pts[i] - pts[j]))) for (i, j), a in sorted(g["faces"].items())]
    alld = [float(np.linalg.norm(pts[i] - pts[j])) for i, j in zip(D.row, D.col)]
    vc.add(vol, g["volumes"], B.data, D.data, [x[2] for x in fa], [x[3] for x in fa], alld)
    rec["vol"] = [int(x) for x in vc.ids(vol)]
    rec["ovol"] = [int(x) for x in vc.ids(g["volumes"])]
    rec["bounded"] = [bool(b) for b in g["bounded"]]
    rec["volPositive"] = bool(np.all(vol > 0))
    rec["adj"] = [[int(i), int(j)] for i, j, v in zip(A.row, A.col, A.data) if v]
    rec["borders"] = [[int(i), int(j), int(vc.ids(float(v)))] for i, j, v in zip(B.row, B.col, B.data)]
    rec["dists"] = [[int(i), int(j), int(vc.ids(float(v)))] for i, j, v in zip(D.row, D.col, D.data)]
    rec["faces"] = [[i, j, int(vc.ids(a)), int(vc.ids(d)), int(min(a, 2.0) * 1e9)] for i, j, a, d in fa]
    # distance pairs without an oracle face still need their Euclidean distance: add zero-area pseudo faces
    have = {(f[0], f[1]) for f in rec["faces"]}
    for i, j, dv in zip(D.row, D.col, alld):
        i, j = int(i), int(j)
        if i < j and (i, j) not in have:
            rec["faces"].append([i, j, -1, int(vc.ids(dv)), 0])
            have.add((i, j))
    rec["entryPositive"] = bool(np.all(B.data > 0) and np.all(D.data > 0) and np.all(np.isfinite(B.data)))
    return rec


def run(ctx: Ctx):
    thorough = ctx.tier == "thorough"
    rng = random.Random(ctx.seed)
    ctx.cov["rule"] = ("mechanism: all strictly convex lattice polygons with 3..6 vertices in a 4x4 (quick) / 5x5 (thorough) window x every "
                       "choice of first and second vertex (TLC model, exhaustive) and a sample of them replayed into the real functions "
                       "in three embeddings; grids: Cartesian position grids of all algorithms with 1-3 radii against the brute-force "
                       "R^3 Voronoi oracle; non-trivial = distinct polygon input / grid")
    ctx.cov["trusted_base"] = ["harness/oracles/r3.py (circumcentres of all 4-subsets, faces by atan2 ordering + shoelace, volumes by the "
                               "divergence theorem); agrees with the implementation on every closed cell tried"]
    ctx.assumptions += ["a cell whose Euclidean Voronoi region is open even with the extra shell has no finite volume: its volume value is "
                        "unconstrained, but positivity and pattern equality are still required",
                        "face areas below 1e-6 A^2 are unconstrained"]
    polys = convex_polygons(4 if thorough else 3, 6)
    if thorough:
        polys = [p for p in polys if len(p) >= 4 or rng.random() < 0.3]
    pf = ctx.scratch / "polys.json"
    pf.write_text(json.dumps(polys))
    env = {"POLY_FILE": str(pf)}
    r = ctx.model("Polygon", ctx.cfg("poly.cfg", 'SPECIFICATION Spec\nCONSTANTS\n  Fix = "repaired"\nINVARIANT AreaIsShoelace\nINVARIANT InputIsConvex\n'),
                  workers=16, env=env, timeout=3000, note=f"{len(polys)} convex lattice polygons x all first/second vertex choices")
    small = ctx.scratch / "polys_small.json"
    small.write_text(json.dumps([p for p in polys if len(p) == 4][:400]))
    ctx.mutant("Polygon", ctx.cfg("poly_pinned.cfg", 'SPECIFICATION Spec\nCONSTANTS\n  Fix = "pinned"\nINVARIANT AreaIsShoelace\n'), "AreaIsShoelace",
               env={"POLY_FILE": str(small)})
    recs = poly_records(polys, rng, None if not thorough else 6)
    if not thorough:
        keep = set(rng.sample(range(len(recs)), min(len(recs), 12000)))
        recs = [r for i, r in enumerate(recs) if i in keep]
    for rec in recs:
        ctx.count(1, nontrivial_key=("poly", str(rec["flat"]), rec["scale6"]))
    grids = [("ico_12", "[0.2, 0.3]"), ("cube3D_8", "[0.2, 0.35]"), ("ico_7", "[0.2, 0.3, 0.45]"), ("cube3D_9", "[0.3]"),
             ("randomS_12", "[0.2, 0.3]"), ("ico_20", "[0.25, 0.4]"), ("cube3D_26", "[0.3]"), ("randomS_6", "[0.2, 0.3]")]
    if thorough:
        grids += [("ico_42", "[0.3]"), ("ico_13", "[0.2, 0.3, 0.4]"), ("cube3D_27", "[0.2, 0.3]"), ("randomS_30", "[0.3]"), ("ico_5", "[0.2, 0.4]"),
                  ("randomS_20", "[0.2, 0.35]"), ("cube3D_13", "[0.25, 0.3, 0.5]"), ("ico_4", "[0.2, 0.3]"), ("ico_30", "[0.2, 0.3]")]
    grecs = []
    for o, t in grids:
        grecs.append(grid_record(o, t))
        ctx.count(1, nontrivial_key=("grid", o, t))
    allrecs = recs + grecs
    for i, rec in enumerate(allrecs):
        rec["tid"] = i
    chunk = 15000
    for c0 in range(0, len(allrecs), chunk):
        rejects = ctx.validate("Cartesian_Trace", "Cartesian_Trace.cfg", allrecs[c0:c0 + chunk], name=f"cart_{c0}", timeout=2400, env=env)
        for tid, clause, _ in rejects:
            rec = allrecs[tid]
            if clause.startswith("HARNESS"):
                raise MachineryError(clause)
            if rec["kind"] == "Poly":
                ctx.violation(f"order_points+get_polygon_area on lattice polygon {rec['flat']} (embedding scale {rec['scale6'] // 10 ** 6}): {clause}",
                              dict(flat=rec["flat"], scale=rec["scale6"], got2_6=rec["area2got6"], clause=clause))
            else:
                ctx.violation(f"PositionGrid(o='{rec['o']}', t='{rec['t']}', cartesian=True): {clause}", dict(o=rec["o"], t=rec["t"], clause=clause, err=rec["err"]))
    ctx.sample(recs[0])
    ctx.sample(dict(grid=[grecs[0]["o"], grecs[0]["t"]], n=grecs[0]["n"], faces_head=grecs[0]["faces"][:3], borders_head=grecs[0]["borders"][:3]))
