"""C03 — direction-grid cells are the true Voronoi tessellation of the sphere.

Spec: spec/SphereCells.tla defines adjacency combinatorially from a vertex-centre incidence; the
incidence and the geometric atoms come from the brute-force oracle harness/oracles/sphere.py (no code
shared with molgri or scipy.spatial).  C->S: every N in 4..bound for the three direction algorithms."""
from __future__ import annotations

import numpy as np

from ..core import Ctx, quiet, MachineryError
from ..oracles.sphere import s2_geometry
from ..project import ValueClasses


def record(alg, N):
    from molgri.space.rotobj import SphereGridFactory
    rec = dict(alg=alg, n=N, inc=[], geo=[], areaIds=[], areaSum8=0, adj=[], borders=[], dists=[], areas=[],
               areasPositive=True, err="")
    try:
        with quiet():
            g = SphereGridFactory.create(alg, N, 3)
            P = np.asarray(g.get_grid_as_array())
            # a getter history before the checked answers: on odd N the documented numerical estimate of the areas is asked
            # FIRST (on even N after the exact ones), and every matrix is asked twice; the last answers are the checked ones
            if N % 2:
                g.get_voronoi_volumes(approx=True)
            else:
                g.get_voronoi_volumes()
                g.get_voronoi_volumes(approx=True)
                g.get_cell_borders(); g.get_center_distances(); g.get_voronoi_adjacency()
            # ... and a caller converts the matrices / areas it was handed in place (degrees, normalised areas), as the package's
            # own FullGrid.get_full_prefactors does with the border matrix it is handed: later answers must not change
            if N % 3 == 0:
                for getter, factor in (("get_cell_borders", 57.29577951308232), ("get_center_distances", 57.29577951308232),
                                       ("get_voronoi_adjacency", 0)):
                    m = getattr(g, getter)()
                    if hasattr(m, "data") and getattr(m.data, "flags", None) is not None and m.data.flags.writeable:
                        m.data[:] = (m.data * factor).astype(m.data.dtype)
                a0 = g.get_voronoi_volumes()
                if isinstance(a0, np.ndarray) and a0.flags.writeable:
                    a0 /= a0.sum()
            adj = g.get_voronoi_adjacency().tocoo()
            bo = g.get_cell_borders().tocoo()
            di = g.get_center_distances().tocoo()
            ar = np.asarray(g.get_voronoi_volumes(), dtype=float)
    except Exception as ex:
        rec["err"] = type(ex).__name__
        return rec
    geo = s2_geometry(P)
    vc = ValueClasses(rel=1e-9, abs_=1e-11)
    og = [(i, j, arc, ang) for (i, j), (ns, arc, ang) in sorted(geo["pairs"].items()) if ns >= 2]
    vc.add([x[2] for x in og], [x[3] for x in og], geo["areas"], bo.data, di.data, ar)
    rec["inc"] = [[v, c] for v, act in enumerate(geo["active"]) for c in act]
    rec["geo"] = [[i, j, int(vc.ids(arc)), int(vc.ids(ang)), int(min(arc, 10.0) * 1e8)] for i, j, arc, ang in og]
    rec["areaIds"] = [int(x) for x in vc.ids(np.array(geo["areas"]))]
    rec["areaSum8"] = int(round(sum(geo["areas"]) * 1e8))
    rec["adj"] = [[int(i), int(j)] for i, j, v in zip(adj.row, adj.col, adj.data) if v]
    rec["borders"] = [[int(i), int(j), int(vc.ids(v))] for i, j, v in zip(bo.row, bo.col, bo.data)]
    rec["dists"] = [[int(i), int(j), int(vc.ids(v))] for i, j, v in zip(di.row, di.col, di.data)]
    rec["areas"] = [int(x) for x in vc.ids(ar)]
    rec["areasPositive"] = bool(np.all(ar > 0) and len(ar) == N)
    return rec


def run(ctx: Ctx):
    thorough = ctx.tier == "thorough"
    ctx.cov["rule"] = ("every N from 4 to the bound for ico, cube3D, randomS (every N, not only complete levels); every pair of "
                       "cells of every grid compared with the brute-force Voronoi complex; non-trivial = distinct (algorithm, N)")
    ctx.cov["trusted_base"] = ["harness/oracles/sphere.py (brute-force Voronoi vertices from all centre triples, Van Oosterom-"
                               "Strackee areas); self-checked per grid inside the spec: Euler's formula, >= 3 cells per vertex, "
                               "areas sum to 4*pi"]
    ctx.assumptions += ["value classes at relative 1e-9; pairs whose shared arc is below 1e-7 rad are unconstrained"]
    ctx.model("SphereCells", "SphereCells.cfg", workers=2, note="definitions on tetrahedron / octahedron / cube complexes")
    bound = {"ico": 162, "cube3D": 162, "randomS": 120} if thorough else {"ico": 60, "cube3D": 60, "randomS": 48}
    recs = []
    for alg, b in bound.items():
        for N in range(4, b + 1):
            recs.append(record(alg, N))
            ctx.count(1, nontrivial_key=(alg, N))
    # one size class far beyond the every-N sweep: fine grids have genuine borders of 1e-3 rad and less (ico_250: 6.1e-4)
    for alg, N in ([("ico", 250), ("cube3D", 300), ("randomS", 200), ("ico", 400)] if thorough else [("ico", 250)]):
        recs.append(record(alg, N))
        ctx.count(1, nontrivial_key=(alg, N))
    for i, r in enumerate(recs):
        r["tid"] = i
    chunk = 60
    for c0 in range(0, len(recs), chunk):
        rejects = ctx.validate("SphereCells_Trace", "SphereCells_Trace.cfg", recs[c0:c0 + chunk], name=f"s2_{c0}", timeout=1800)
        for tid, clause, _ in rejects:
            r = recs[tid]
            if clause.startswith("ORACLE"):
                raise MachineryError(f"oracle self-check failed for {r['alg']}_{r['n']}")
            ctx.violation(f"direction grid {r['alg']}_{r['n']}: {clause}", dict(alg=r["alg"], N=r["n"], clause=clause, err=r["err"]))
    r = recs[9]
    ctx.sample(dict(alg=r["alg"], N=r["n"], n_vertices=len({p[0] for p in r["inc"]}), adj_pairs=len(r["adj"]), geo_head=r["geo"][:3]))
    ctx.cov["exhaustive"] = True
