"""Brute-force Euclidean Voronoi diagram in R^3 (independent oracle for C06; no scipy.spatial, no molgri).

Vertices: circumcentres of all 4-subsets of the points with an empty circumsphere; coincident vertices
merged; active points of a vertex = all points within tolerance of the minimal distance.
Faces: for a pair (i, j) the vertices active for both; polygon ordered by atan2 in the bisector plane,
area by the shoelace formula.  Cell volume by the divergence theorem (sum over faces of
area * distance(point, face plane) / 3); a cell is closed (bounded) iff its face normals weighted by
area sum to zero."""
from __future__ import annotations

import itertools
import math

import numpy as np


def _circumcentres(P, idx):
    a = P[idx[:, 0]]
    M = np.stack([P[idx[:, k]] - a for k in (1, 2, 3)], axis=1)          # (m, 3, 3)
    rhs = 0.5 * np.sum(M * M, axis=2)                                     # (m, 3)
    det = np.linalg.det(M)
    ok = np.abs(det) > 1e-12
    c = np.zeros((len(idx), 3))
    if np.any(ok):
        c[ok] = np.linalg.solve(M[ok], rhs[ok][:, :, None])[:, :, 0] + a[ok]
    return c, ok


def voronoi3(points, tol=1e-9):
    P = np.asarray(points, dtype=float)
    n = len(P)
    found = []
    it = itertools.combinations(range(n), 4)
    while True:
        block = list(itertools.islice(it, 300000))
        if not block:
            break
        idx = np.array(block, dtype=np.int32)
        c, ok = _circumcentres(P, idx)
        c, idx = c[ok], idx[ok]
        r2 = np.sum((c - P[idx[:, 0]]) ** 2, axis=1)
        d2 = np.sum(c * c, axis=1)[:, None] - 2 * c @ P.T + np.sum(P * P, axis=1)[None, :]
        good = np.min(d2, axis=1) >= r2 - tol * np.maximum(1.0, r2)
        if np.any(good):
            found.append(c[good])
    if not found:
        return dict(vertices=np.zeros((0, 3)), active=[])
    V = np.concatenate(found)
    merged = []
    order = np.lexsort(np.round(V, 6).T[::-1])
    for v in V[order]:
        if merged and np.min(np.max(np.abs(np.array(merged[-50:]) - v), axis=1)) < 1e-7:
            continue
        if merged:
            M = np.array(merged)
            if np.min(np.max(np.abs(M - v), axis=1)) < 1e-7:
                continue
        merged.append(v)
    V = np.array(merged)
    d = np.linalg.norm(V[:, None, :] - P[None, :, :], axis=2)
    mn = d.min(axis=1)
    active = [sorted(np.nonzero(d[i] <= mn[i] + 1e-7)[0].tolist()) for i in range(len(V))]
    return dict(vertices=V, active=active)


def polygon_area_in_plane(W, normal):
    c = W.mean(axis=0)
    e1 = W[0] - c
    e1 -= np.dot(e1, normal) * normal
    e1 /= np.linalg.norm(e1)
    e2 = np.cross(normal, e1)
    xy = np.array([[np.dot(w - c, e1), np.dot(w - c, e2)] for w in W])
    o = np.argsort(np.arctan2(xy[:, 1], xy[:, 0]))
    xy = xy[o]
    x, y = xy[:, 0], xy[:, 1]
    return 0.5 * abs(np.dot(x, np.roll(y, -1)) - np.dot(y, np.roll(x, -1)))


def geometry(points, ncells):
    """faces {(i,j): area} for i<j<ncells... and volumes / boundedness of the first ncells cells"""
    P = np.asarray(points, dtype=float)
    vx = voronoi3(P)
    V = vx["vertices"]
    cells = [set() for _ in range(len(P))]
    for vi, act in enumerate(vx["active"]):
        for c in act:
            cells[c].add(vi)
    faces = {}
    vol = np.zeros(ncells)
    closure = np.zeros((ncells, 3))
    for i in range(ncells):
        for j in range(len(P)):
            if j == i:
                continue
            sh = sorted(cells[i] & cells[j])
            if len(sh) < 3:
                continue
            W = V[sh]
            nrm = P[j] - P[i]
            dist = np.linalg.norm(nrm)
            nrm = nrm / dist
            if np.linalg.matrix_rank(W - W.mean(axis=0), tol=1e-7) < 2:
                continue
            area = polygon_area_in_plane(W, nrm)
            if j < ncells and i < j:
                faces[(i, j)] = area
            vol[i] += area * (dist / 2) / 3
            closure[i] += area * nrm
    bounded = [bool(np.linalg.norm(closure[i]) < 1e-7 * max(1.0, vol[i] ** (2 / 3)) and vol[i] > 0) for i in range(ncells)]
    return dict(faces=faces, volumes=vol, bounded=bounded, nvertices=len(V))
