"""Brute-force Voronoi complexes on S^2 and S^3 (independent numeric oracle, no molgri / scipy.spatial code).

voronoi_complex(points): points (n, d) unit vectors, d in {3, 4}.
  A Voronoi vertex on the unit sphere is a unit vector v equidistant from d centres with no centre
  strictly closer; it is the (generalised) cross product of d-1 difference vectors of a d-subset of
  centres, in either sign.  All d-subsets are enumerated (vectorised), coincident vertices merged, and
  for each distinct vertex the ACTIVE centres are all centres within tol of the maximal dot product
  (so degenerate vertices where more than d cells meet are handled).
Returns dict(vertices (m, d), active: list of sorted centre-index lists per vertex).
"""
from __future__ import annotations

import itertools
import math

import numpy as np

TOL = 1e-9


def _subsets(n, d, chunk=400000):
    """index arrays of all d-subsets of range(n), in chunks"""
    it = itertools.combinations(range(n), d)
    while True:
        block = list(itertools.islice(it, chunk))
        if not block:
            return
        yield np.array(block, dtype=np.int32)


def _normals(P, idx):
    """unit normals of the hyperplanes through the d points P[idx[:, 0..d-1]] (affine hull), shape (m, d)"""
    d = P.shape[1]
    base = P[idx[:, 0]]
    diffs = [P[idx[:, k]] - base for k in range(1, d)]
    if d == 3:
        nrm = np.cross(diffs[0], diffs[1])
    else:
        a, b, c = diffs
        # generalised cross product in R^4: cofactor expansion
        def det3(x, y, z):
            return (x[:, 0] * (y[:, 1] * z[:, 2] - y[:, 2] * z[:, 1])
                    - x[:, 1] * (y[:, 0] * z[:, 2] - y[:, 2] * z[:, 0])
                    + x[:, 2] * (y[:, 0] * z[:, 1] - y[:, 1] * z[:, 0]))
        cols = [0, 1, 2, 3]
        comps = []
        for k in range(4):
            keep = [c_ for c_ in cols if c_ != k]
            comps.append(((-1) ** k) * det3(a[:, keep], b[:, keep], c[:, keep]))
        nrm = np.stack(comps, axis=1)
    ln = np.linalg.norm(nrm, axis=1)
    ok = ln > 1e-10
    nrm[ok] /= ln[ok][:, None]
    return nrm, ok


def voronoi_complex(points: np.ndarray, tol=TOL):
    P = np.asarray(points, dtype=float)
    n, d = P.shape
    found = []
    for idx in _subsets(n, d):
        nrm, ok = _normals(P, idx)
        nrm = nrm[ok]
        idx_ok = idx[ok]
        for sign in (1.0, -1.0):
            v = sign * nrm
            dots = v @ P.T                                  # (m, n)
            own = np.take_along_axis(dots, idx_ok[:, :1].astype(np.int64), axis=1)[:, 0]
            mx = dots.max(axis=1)
            good = mx <= own + tol                         # no centre strictly closer than the defining ones
            if np.any(good):
                found.append(v[good])
    if not found:
        return dict(vertices=np.zeros((0, d)), active=[])
    V = np.concatenate(found)
    # merge coincident vertices
    key = np.round(V / (10 * tol)).astype(np.int64)
    order = np.lexsort(key.T[::-1])
    V = V[order]
    keep = [0]
    for i in range(1, len(V)):
        if np.max(np.abs(V[i] - V[keep[-1]])) > 1e-7:
            keep.append(i)
    V = V[keep]
    # robust second pass: merge anything still closer than 1e-7 (lexsort neighbours may be split by rounding)
    merged = []
    for v in V:
        if merged:
            M = np.array(merged)
            if np.min(np.max(np.abs(M - v), axis=1)) < 1e-7:
                continue
        merged.append(v)
    V = np.array(merged)
    dots = V @ P.T
    mx = dots.max(axis=1)
    active = [sorted(np.nonzero(dots[i] >= mx[i] - 1e-8)[0].tolist()) for i in range(len(V))]
    return dict(vertices=V, active=active)


def cells_of(cx, n):
    cells = [[] for _ in range(n)]
    for vi, act in enumerate(cx["active"]):
        for c in act:
            cells[c].append(vi)
    return cells


def solid_angle_triangle(a, b, c):
    """Van Oosterom-Strackee: solid angle of the spherical triangle (unit vectors in R^3)"""
    num = abs(np.dot(a, np.cross(b, c)))
    den = 1.0 + np.dot(a, b) + np.dot(b, c) + np.dot(c, a)
    return 2.0 * math.atan2(num, den)


def polygon_area_on_2sphere(verts3):
    """area of the convex spherical polygon with the given vertices (unit vectors in R^3, any order)"""
    c = verts3.mean(axis=0)
    c /= np.linalg.norm(c)
    # tangent frame at c
    e1 = verts3[0] - np.dot(verts3[0], c) * c
    e1 /= np.linalg.norm(e1)
    e2 = np.cross(c, e1)
    ang = [math.atan2(np.dot(v, e2), np.dot(v, e1)) for v in verts3]
    order = np.argsort(ang)
    vs = verts3[order]
    area = 0.0
    for k in range(len(vs)):
        area += solid_angle_triangle(c, vs[k], vs[(k + 1) % len(vs)])
    return area


def s2_geometry(points):
    """Voronoi geometry on S^2: dict with vertices, active, cells, areas, pairs {(i,j): (n_shared, arc, angle)}"""
    P = np.asarray(points, dtype=float)
    n = len(P)
    cx = voronoi_complex(P)
    cells = cells_of(cx, n)
    V = cx["vertices"]
    areas = []
    for i in range(n):
        vs = V[cells[i]]
        if len(vs) < 3:
            areas.append(0.0)
            continue
        # polygon around the centre P[i]
        c = P[i]
        e1 = vs[0] - np.dot(vs[0], c) * c
        e1 /= np.linalg.norm(e1)
        e2 = np.cross(c, e1)
        ang = [math.atan2(np.dot(v, e2), np.dot(v, e1)) for v in vs]
        o = np.argsort(ang)
        w = vs[o]
        areas.append(sum(solid_angle_triangle(c, w[k], w[(k + 1) % len(w)]) for k in range(len(w))))
    pairs = {}
    sets = [set(c) for c in cells]
    for i in range(n):
        for j in range(i + 1, n):
            sh = sorted(sets[i] & sets[j])
            if not sh:
                continue
            arc = 0.0
            if len(sh) >= 2:
                # the shared arc is between the two extreme shared vertices
                W = V[sh]
                arc = max(math.acos(max(-1.0, min(1.0, float(np.dot(W[a], W[b]))))) for a in range(len(W)) for b in range(a + 1, len(W)))
            ang = math.acos(max(-1.0, min(1.0, float(np.dot(P[i], P[j])))))
            pairs[(i, j)] = (len(sh), arc, ang)
    return dict(vertices=V, active=cx["active"], cells=cells, areas=areas, pairs=pairs)


def s3_geometry(points):
    """Voronoi geometry on S^3: pairs {(i,j): (n_shared, rank, face_area, theta)} for pairs sharing >= 1 vertex"""
    P = np.asarray(points, dtype=float)
    n = len(P)
    cx = voronoi_complex(P)
    cells = cells_of(cx, n)
    V = cx["vertices"]
    sets = [set(c) for c in cells]
    pairs = {}
    for i in range(n):
        for j in range(i + 1, n):
            sh = sorted(sets[i] & sets[j])
            if not sh:
                continue
            W = V[sh]
            s = np.linalg.svd(W, compute_uv=False)
            rank = int(np.sum(s > 1e-7))
            area = 0.0
            if rank >= 3:
                # orthonormal basis of the 3-dim subspace spanned by the shared vertices
                u, s_, vt = np.linalg.svd(W, full_matrices=False)
                B = vt[:3]
                area = polygon_area_on_2sphere(W @ B.T)
            theta = math.acos(max(-1.0, min(1.0, float(np.dot(P[i], P[j])))))
            pairs[(i, j)] = (len(sh), rank, area, theta)
    return dict(vertices=V, active=cx["active"], cells=cells, pairs=pairs)
