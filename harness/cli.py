"""./check Cxx [--tier quick|thorough] [--replay path] | --setup | --selftest"""
from __future__ import annotations

import argparse
import importlib
import json
import os
import sys
import traceback

from .core import Ctx, ROOT
from .tlc import MachineryError, sany, SPEC_DIR


def setup() -> int:
    """Offline sanity: tools present, every spec module parses."""
    bad = 0
    for f in sorted(SPEC_DIR.glob("*.tla")):
        ok, out = sany(f.stem)
        print(("ok   " if ok else "FAIL ") + f.name)
        if not ok:
            print(out)
            bad += 1
    try:
        import molgri  # noqa: F401
        print("ok   import molgri from", os.path.dirname(molgri.__file__))
    except Exception as ex:  # pragma: no cover
        print("FAIL import molgri:", ex)
        bad += 1
    return 0 if bad == 0 else 2


def main(argv=None) -> int:
    ap = argparse.ArgumentParser()
    ap.add_argument("pid", nargs="?")
    ap.add_argument("--tier", default=os.environ.get("VERIF_TIER", "quick"), choices=["quick", "thorough"])
    ap.add_argument("--replay")
    ap.add_argument("--setup", action="store_true")
    ap.add_argument("--selftest", action="store_true")
    ap.add_argument("--proofs", action="store_true", help="re-check the TLAPS proofs under spec/proofs (not part of any claim)")
    a = ap.parse_args(argv)
    if a.setup:
        return setup()
    if a.selftest:
        from . import selftest
        return selftest.main()
    if a.proofs:
        import subprocess
        bad = 0
        pdir = SPEC_DIR / "proofs"
        for f in sorted(pdir.glob("*.tla")):
            p = subprocess.run(["tlapm", "-I", "..", "--toolbox", "0", "0", f.name], cwd=str(pdir), capture_output=True, text=True, timeout=1800)
            out = p.stdout + p.stderr
            info = [ln for ln in out.splitlines() if ln.startswith("[INFO]") and "proved" in ln]
            ok = bool(info) and "[ERROR]" not in out
            line = info[-1:] or [ln for ln in out.splitlines() if "[ERROR]" in ln][-1:] or ["?"]
            print(("ok   " if ok else "FAIL ") + f.name + " — " + line[0].strip())
            bad += (not ok)
        import shutil
        shutil.rmtree(pdir / ".tlacache", ignore_errors=True)
        return 0 if bad == 0 else 2
    if not a.pid:
        ap.error("property id required")
    pid = a.pid.upper()
    seed = int(os.environ.get("VERIF_SEED", "20260927"))
    try:
        mod = importlib.import_module(f"harness.drivers.{pid.lower()}")
    except ModuleNotFoundError:
        print(f"no driver for {pid}", file=sys.stderr)
        return 2
    ctx = Ctx(pid, a.tier, seed, replay=a.replay, level=getattr(mod, "LEVEL", "model_checking"))
    try:
        if a.replay:
            case = json.loads(open(a.replay).read())
            ctx.only_key = case["key"]
            if hasattr(mod, "replay"):
                mod.replay(ctx, case)
            else:
                mod.run(ctx)
        else:
            mod.run(ctx)
        return ctx.finish()
    except MachineryError as ex:
        print(f"MACHINERY-FAILURE property={pid}: {ex}", file=sys.stderr)
        return 2
    except Exception as ex:
        traceback.print_exc()
        # Which part failed?  The deepest frame that belongs to the harness decides: the TLC / parsing / bookkeeping layer is
        # machinery (exit 2); a driver, oracle or projection helper choking on what the implementation handed back means the
        # implementation's output does not have the promised form - that is a verdict about the code under test (exit 1).
        frames = [f for f in traceback.extract_tb(ex.__traceback__) if "/harness/" in f.filename]
        deepest = frames[-1] if frames else None
        machinery_files = ("core.py", "tlc.py", "tlaparse.py", "cli.py", "manifest_gen.py", "selftest.py")
        if deepest is None or deepest.filename.endswith(machinery_files) or ctx.only_key is not None:
            print(f"MACHINERY-FAILURE property={pid}: unexpected exception in the harness", file=sys.stderr)
            return 2
        where = f"{deepest.filename.split('/harness/')[-1]}:{deepest.lineno}"
        try:
            ctx.violation(f"implementation output could not be projected by the harness ({type(ex).__name__} at {where})",
                          dict(exception=type(ex).__name__, message=str(ex)[:500], where=where))
            return ctx.finish()
        except Exception:
            traceback.print_exc()
            print(f"MACHINERY-FAILURE property={pid}: unexpected exception in the harness", file=sys.stderr)
            return 2


if __name__ == "__main__":
    sys.exit(main())
