"""Shared helpers for C07 / C08 / C15: creating real sphere grids, digests of everything they return,
wrapping numpy's global generator, and the fresh-process reference table."""
from __future__ import annotations

import hashlib
import json
import os
import subprocess
import sys

import numpy as np
from scipy import sparse

GETTERS = ["array", "volumes", "volumes_approx", "hulls", "hulls_plain", "polytope_nodes", "adjacency", "borders", "distances",
           "adjacency_full", "borders_noopp", "distances_full", "array_upper"]
DIM = {"ico": 3, "cube3D": 3, "randomS": 3, "zero3D": 3, "cube4D": 4, "randomQ": 4, "fulldiv": 4, "zero4D": 4}


def dig(obj) -> str:
    h = hashlib.sha256()
    if sparse.issparse(obj):
        obj = obj.tocoo()
        for part in (obj.row, obj.col, obj.data):
            a = np.ascontiguousarray(part)
            h.update(str(a.dtype).encode() + str(a.shape).encode() + a.tobytes())
        h.update(str(obj.shape).encode())
    else:
        a = np.ascontiguousarray(np.asarray(obj))
        h.update(str(a.dtype).encode() + str(a.shape).encode() + a.tobytes())
    return h.hexdigest()


def create(alg, N):
    from molgri.space.rotobj import SphereGridFactory
    return SphereGridFactory.create(alg_name=alg, N=N, dimensions=DIM[alg])


def call_getter(g, what):
    if what == "array":
        return g.get_grid_as_array(only_upper=False)
    if what == "array_upper":           # the documented upper-half selection (directions and rotations alike)
        return g.get_grid_as_array(only_upper=True)
    if what == "volumes":
        return g.get_spherical_voronoi().get_voronoi_volumes()
    if what == "volumes_approx":        # the same getter with its documented `approx` argument (3D: numerical estimate)
        return g.get_spherical_voronoi().get_voronoi_volumes(approx=True)
    if what == "hulls":                 # volumes of the convex hulls behind the estimated cell volumes (N >= 4)
        return np.array([h.volume for h in g.get_convex_hulls()])
    if what == "hulls_plain":           # the same hulls without the helper points (documented flag), on the double-cover diagram in 4D
        sv = g.get_spherical_voronoi()
        return np.array([h.volume for h in getattr(sv, "full_voronoi", sv).get_convex_hulls(including_additional=False)])
    if what == "polytope_nodes":        # the polytope a polytope grid was cut from, as the grid object exposes it
        return np.zeros(0) if g.polytope is None else np.asarray(g.polytope.get_nodes(projection=True))
    if what == "adjacency":
        return g.get_voronoi_adjacency()
    if what == "borders":
        return g.get_cell_borders()
    if what == "distances":
        return g.get_center_distances()
    # the same three getters with their documented options (they only matter for rotation grids: the 2N x 2N double-cover
    # matrix / the half matrix without the neighbours through the antipode); asked of the SAME object as the default forms
    if what == "adjacency_full":
        return g.get_voronoi_adjacency(only_upper=False, include_opposing_neighbours=False)
    if what == "borders_noopp":
        return g.get_cell_borders(only_upper=True, include_opposing_neighbours=False)
    if what == "distances_full":
        return g.get_center_distances(only_upper=False, include_opposing_neighbours=True)
    raise KeyError(what)


class RngTap:
    """Wrap numpy.random.seed / shuffle / random (the functions molgri uses) to log the events."""

    def __init__(self):
        self.events = []
        self._orig = {}

    def __enter__(self):
        for name in ("seed", "shuffle", "random"):
            self._orig[name] = getattr(np.random, name)
        tap = self

        def seed(s=None):
            tap.events.append(["seed", int(s) if s is not None else -1])
            return tap._orig["seed"](s)

        def shuffle(x):
            tap.events.append(["shuffle", int(len(x))])
            return tap._orig["shuffle"](x)

        def random(size=None):
            tap.events.append(["random", int(np.prod(size)) if size is not None else 1])
            return tap._orig["random"](size)
        np.random.seed, np.random.shuffle, np.random.random = seed, shuffle, random
        return self

    def __exit__(self, *a):
        for name, f in self._orig.items():
            setattr(np.random, name, f)

    def take(self):
        ev, self.events = self.events, []
        return ev


def fresh_reference(pool, getters, scratch, tag):
    """digests of every (alg, N, getter) computed in a FRESH process with another PYTHONHASHSEED and a
    scrambled global generator; returns {(alg, N, what): hexdigest or 'ERR:<cls>'}"""
    out = os.path.join(scratch, f"fresh_{tag}.json")
    env = dict(os.environ)
    env["PYTHONHASHSEED"] = str(1000 + tag)
    env["VERIF_FRESH_SCRAMBLE"] = str(7919 * (tag + 3))
    code = ("import sys, json; sys.path[:0] = %r; from harness.gridlife import _fresh_main; _fresh_main(%r, %r, %r)"
            % ([p for p in sys.path if p], [list(x) for x in pool], list(getters), out))
    p = subprocess.run([sys.executable, "-c", code], env=env, capture_output=True, text=True, timeout=3000)
    if p.returncode != 0:
        raise RuntimeError("fresh reference process failed: " + p.stderr[-2000:])
    data = json.load(open(out))
    return {(a, n, w): d for a, n, w, d in data}


def _fresh_main(pool, getters, out):
    import io
    import contextlib
    np.random.seed(int(os.environ.get("VERIF_FRESH_SCRAMBLE", "1")) % (2 ** 31))
    np.random.random(17)
    res = []
    with contextlib.redirect_stdout(io.StringIO()):
        for alg, N in pool:
            try:
                g = create(alg, N)
            except Exception as ex:
                for w in getters:
                    res.append([alg, N, w, "ERR:" + type(ex).__name__])
                continue
            for w in getters:
                try:
                    res.append([alg, N, w, dig(call_getter(g, w))])
                except Exception as ex:
                    res.append([alg, N, w, "ERR:" + type(ex).__name__])
            np.random.random(3)      # perturb the generator between grids
    json.dump(res, open(out, "w"))
