------------------------------- MODULE MsmOps -------------------------------
(***************************************************************************)
(* C12. Pure definitions for the MSM transition matrix of an assigned      *)
(* trajectory.  NaN (unassigned frame) is represented by -1.               *)
(* x is a sequence (1-based) of cell indices in 0..m-1 or NaN.             *)
(***************************************************************************)
EXTENDS Integers, Sequences, FiniteSets, FiniteSetsExt, TLC

NaN == -1
StepOf(tau, noncorr) == IF noncorr THEN tau ELSE 1

(* window start positions (0-based, as in the implementation): k = 0, step, 2 step, ... < L - tau *)
Starts(L, tau, noncorr) == {k \in 0 .. (L - 1) : k % StepOf(tau, noncorr) = 0 /\ k < L - tau}

(* declarative count matrix: windows (x_k, x_{k+tau}) with both ends assigned *)
Count(x, tau, noncorr, i, j) ==
  Cardinality({k \in Starts(Len(x), tau, noncorr) : x[k + 1] = i /\ x[k + tau + 1] = j})

Sym(x, tau, noncorr, i, j) == Count(x, tau, noncorr, i, j) + Count(x, tau, noncorr, j, i)
RowTotal(x, tau, noncorr, m, i) == MapThenSumSet(LAMBDA j : Sym(x, tau, noncorr, i, j), 0 .. (m - 1))

(* the same matrix, written so that TLC evaluates the window set once (TLCEval is the identity) *)
SymMatrix(x, tau, noncorr, m) ==
  LET St == TLCEval(Starts(Len(x), tau, noncorr))
      c(i, j) == Cardinality({k \in St : x[k + 1] = i /\ x[k + tau + 1] = j})
  IN [i \in 0 .. (m - 1) |-> [j \in 0 .. (m - 1) |-> IF i = j THEN 2 * c(i, i) ELSE c(i, j) + c(j, i)]]
SymMatrixIsSym(x, tau, noncorr, m) ==
  \A i, j \in 0 .. (m - 1) : SymMatrix(x, tau, noncorr, m)[i][j] = Sym(x, tau, noncorr, i, j)
RowTotals(x, tau, noncorr, m) == [i \in 0 .. (m - 1) |-> RowTotal(x, tau, noncorr, m, i)]

SeqSumF(row, m) == MapThenSumSet(LAMBDA j : row[j], 0 .. (m - 1))     \* sum of one row given as a function on 0..m-1

Reverse(s) == [i \in 1 .. Len(s) |-> s[Len(s) + 1 - i]]
=============================================================================
