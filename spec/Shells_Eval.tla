------------------------------ MODULE Shells_Eval ------------------------------
(***************************************************************************)
(* C05, spec -> code.  Evaluator: for every case [r, nO, adj <<[o,o']>>]   *)
(* in IOEnv.CASES_FILE write the expected structure of the four outputs of *)
(* the position grid (coefficients as [num, den], atoms by name) to        *)
(* IOEnv.OUT_FILE.  Units: 0.05 Angstrom.                                  *)
(***************************************************************************)
EXTENDS Integers, Sequences, FiniteSets, SequencesExt, TLC, Json, IOUtils

S == INSTANCE Shells WITH Pool <- {}, MaxT <- 0, MaxO <- 0, Bug <- "none", r <- <<>>, nO <- 0, adj <- {}, phase <- ""
Cases == JsonDeserialize(IOEnv.CASES_FILE)

Expect(c) ==
  LET adj == {<<p[1], p[2]>> : p \in ToSet(c.adj)}
      n == Len(c.r) * c.nO
      pairs == S!DeclPairs(c.r, c.nO, adj)
  IN [n |-> n,
      between |-> S!Between(c.r),
      vol |-> [p \in 1 .. n |-> LET v == S!DeclVol(c.r, c.nO, p - 1) IN [num |-> v[1][1], den |-> v[1][2], atom |-> v[2]]],
      entries |-> SetToSeq({ LET b == S!DeclBorder(c.r, c.nO, pq[1], pq[2])
                                 d == S!DeclDist(c.r, c.nO, pq[1], pq[2])
                             IN [p |-> pq[1], q |-> pq[2], bnum |-> b[1][1], bden |-> b[1][2], batom |-> b[2],
                                 dnum |-> d[1][1], dden |-> d[1][2], datom |-> d[2]] : pq \in pairs })]

ASSUME JsonSerialize(IOEnv.OUT_FILE, [i \in 1 .. Len(Cases) |-> Expect(Cases[i])])
ASSUME PrintT(<<"evaluated", Len(Cases)>>)
=============================================================================
