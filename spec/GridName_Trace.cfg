SPECIFICATION Spec
POSTCONDITION AllConsumed
