------------------------------ MODULE Sqra_Trace ------------------------------
(***************************************************************************)
(* C01, code -> spec.  One record per call of the real                     *)
(* SQRA(energies, volumes, distances, surfaces).get_rate_matrix(D, T):     *)
(*  [tid, n, pat <<[i,j]>>, S, h (per pat entry), V, k, D, cap, base,      *)
(*   C (common denominator), Qc (n x n ints = round(Q*C)), exact,          *)
(*   shift12, linear12 (max relative deviation of Q(E+c) from Q(E) and of  *)
(*   Q(2D) from 2 Q(D) for random real c, in units of 1e-12), err, form]   *)
(***************************************************************************)
EXTENDS Integers, Sequences, FiniteSets, TLC, Json, IOUtils

O == INSTANCE SqraOps
Log == JsonDeserialize(IOEnv.TRACE_FILE)
VARIABLE l
Rec == Log[l]

InstOf(r) ==
  LET P == {<<r.pat[e][1], r.pat[e][2]>> : e \in 1 .. Len(r.pat)}
      at(p) == CHOOSE e \in 1 .. Len(r.pat) : <<r.pat[e][1], r.pat[e][2]>> = p
  IN [n |-> r.n, pat |-> P, S |-> [p \in P |-> r.S[at(p)]], h |-> [p \in P |-> r.h[at(p)]],
      V |-> r.V, k |-> r.k, D |-> r.D, cap |-> r.cap, base |-> r.base]

Clause(r) ==
  LET inst == TLCEval(InstOf(r))
      C == 0 .. (r.n - 1)
      bad == {<<i, j>> \in C \X C : LET q == O!QFull(inst, i, j) IN r.Qc[i + 1][j + 1] * q[2] # q[1] * r.C}
  IN IF r.err # "" THEN "exception:" \o r.err
     ELSE IF Len(r.Qc) # r.n THEN "shape"
     ELSE IF ~r.exact THEN "an entry is not on the rational lattice of the formula"
     ELSE IF \E p \in bad : p[1] # p[2] /\ p \notin inst.pat THEN "non-zero entry off the pattern"
     ELSE IF \E p \in bad : p[1] # p[2] THEN "off-diagonal entry differs from D*S/(h*V_i)*exp((E_i-E_j)/2RT)"
     ELSE IF bad # {} THEN "row does not sum to zero"
     ELSE IF r.shift12 > 1000 THEN "not invariant under a constant energy shift"
     ELSE IF r.linear12 > 1000 THEN "not linear in D"
     ELSE "ok"

Init == l = 1 /\ TLCSet(1, 0)
Step == /\ l <= Len(Log)
        /\ LET c == Clause(Rec) IN IF c = "ok" THEN TRUE ELSE PrintT(<<"REJECT", Rec.tid, c, 0>>)
        /\ TLCSet(1, l)
        /\ l' = l + 1
Spec == Init /\ [][Step]_l
AllConsumed == TLCGet(1) = Len(Log)
=============================================================================
