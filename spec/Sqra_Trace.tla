------------------------------ MODULE Sqra_Trace ------------------------------
(***************************************************************************)
(* C01, code -> spec.  One record per call of the real                     *)
(* SQRA(energies, volumes, distances, surfaces).get_rate_matrix(D, T):     *)
(*  [tid, n, pat <<[i,j]>>, S, h (per pat entry), V, k, D, cap, base,      *)
(*   C (common denominator), Qc (n x n ints = round(Q*C)), exact,          *)
(*   shift12, linear12 (max relative deviation of Q(E+c) from Q(E) and of  *)
(*   Q(2D) from 2 Q(D) for random real c, in units of 1e-12), err, form]   *)
(* wide = TRUE: energy levels spread over up to ~480 kJ/mol (beyond any    *)
(* common denominator in 32 bits): the off-diagonal entries come as        *)
(* Qme <<[i, j, m, e]>> with Q_ij = m * base^e / 36, m not divisible by    *)
(* base, and the row sums as rowRes12 = max_i |sum_j Q_ij| / max_j |Q_ij|  *)
(* in units of 1e-12.  cap12 (three records): max relative deviation of   *)
(* Q_01, Q_10 of a two-cell system with E_0 - E_1 in {499, 500, 500.5,    *)
(* 503, 650} kJ/mol from exp(min(dE,500)/2RT), exp(-dE/2RT), 1e-12.       *)
(***************************************************************************)
EXTENDS Integers, Sequences, FiniteSets, TLC, Json, IOUtils

O == INSTANCE SqraOps
Log == JsonDeserialize(IOEnv.TRACE_FILE)
VARIABLE l
Rec == Log[l]

InstOf(r) ==
  LET P == {<<r.pat[e][1], r.pat[e][2]>> : e \in 1 .. Len(r.pat)}
      at(p) == CHOOSE e \in 1 .. Len(r.pat) : <<r.pat[e][1], r.pat[e][2]>> = p
  IN [n |-> r.n, pat |-> P, S |-> [p \in P |-> r.S[at(p)]], h |-> [p \in P |-> r.h[at(p)]],
      V |-> r.V, k |-> r.k, D |-> r.D, cap |-> r.cap, base |-> r.base]

WideClause(r) ==
  LET inst == TLCEval(InstOf(r))
      got == {<<r.Qme[e][1], r.Qme[e][2]>> : e \in 1 .. Len(r.Qme)}
      at(p) == CHOOSE e \in 1 .. Len(r.Qme) : <<r.Qme[e][1], r.Qme[e][2]>> = p
  IN IF r.err # "" THEN "exception:" \o r.err
     ELSE IF ~r.exact THEN "an entry is not on the rational lattice of the formula"
     ELSE IF \E p \in got : p \notin inst.pat THEN "non-zero entry off the pattern"
     ELSE IF \E p \in inst.pat : p \notin got THEN "off-diagonal entry differs from D*S/(h*V_i)*exp((E_i-E_j)/2RT)"
     ELSE IF \E p \in inst.pat : LET q == O!QWide(inst, p[1], p[2]) IN q[1] = 0 THEN "MACHINERY: 36 D S / (h V) is not an integer"
     ELSE IF \E p \in inst.pat : LET q == O!QWide(inst, p[1], p[2]) IN <<r.Qme[at(p)][3], r.Qme[at(p)][4]>> # q
          THEN "off-diagonal entry differs from D*S/(h*V_i)*exp((E_i-E_j)/2RT)"
     ELSE IF r.rowRes12 > 1000 THEN "row does not sum to zero"
     ELSE IF r.cap12 > 1000 THEN "the one-sided cap is not at 500 kJ/mol (pairs just below / at / just above it)"
     ELSE IF r.shift12 > 1000 THEN "not invariant under a constant energy shift"
     ELSE IF r.linear12 > 1000 THEN "not linear in D"
     ELSE "ok"

Clause(r) ==
  LET inst == TLCEval(InstOf(r))
      C == 0 .. (r.n - 1)
      bad == {<<i, j>> \in C \X C : LET q == O!QFull(inst, i, j) IN r.Qc[i + 1][j + 1] * q[2] # q[1] * r.C}
  IN IF r.err # "" THEN "exception:" \o r.err
     ELSE IF Len(r.Qc) # r.n THEN "shape"
     ELSE IF ~r.exact THEN "an entry is not on the rational lattice of the formula"
     ELSE IF \E p \in bad : p[1] # p[2] /\ p \notin inst.pat THEN "non-zero entry off the pattern"
     ELSE IF \E p \in bad : p[1] # p[2] THEN "off-diagonal entry differs from D*S/(h*V_i)*exp((E_i-E_j)/2RT)"
     ELSE IF bad # {} THEN "row does not sum to zero"
     ELSE IF r.shift12 > 1000 THEN "not invariant under a constant energy shift"
     ELSE IF r.linear12 > 1000 THEN "not linear in D"
     ELSE "ok"

Init == l = 1 /\ TLCSet(1, 0)
Step == /\ l <= Len(Log)
        /\ LET c == IF Rec.wide THEN WideClause(Rec) ELSE Clause(Rec) IN IF c = "ok" THEN TRUE ELSE PrintT(<<"REJECT", Rec.tid, c, 0>>)
        /\ TLCSet(1, l)
        /\ l' = l + 1
Spec == Init /\ [][Step]_l
AllConsumed == TLCGet(1) = Len(Log)
=============================================================================
