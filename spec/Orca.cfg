SPECIFICATION Spec
CONSTANTS
  Vals = {1, 2}
  MaxLines = 3
  MaxFiles = 2
  Bug = "none"
INVARIANT OneRowPerFrame
INVARIANT RowIsFrameEnergy
CHECK_DEADLOCK FALSE
