SPECIFICATION Spec
CONSTANTS
  Kind = "cube3D"
  MaxLevel = 2
  Bug = "none"
INVARIANT NodesAreLattice
INVARIANT NodeCountOK
INVARIANT EdgesAreUnitEdges
INVARIANT EdgeCountOK
INVARIANT ClosedUnderNegation
INVARIANT NoOrigin
INVARIANT HalfSelection
PROPERTY OldNodesKept
