SPECIFICATION Spec
CONSTANTS
  Kind = "cube4D"
  MaxLevel = 1
  Bug = "none"
INVARIANT NodesAreLattice
INVARIANT NodeCountOK
INVARIANT EdgesAreUnitEdges
INVARIANT EdgeCountOK
INVARIANT ClosedUnderNegation
INVARIANT NoOrigin
INVARIANT HalfSelection
PROPERTY OldNodesKept
