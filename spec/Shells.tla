-------------------------------- MODULE Shells --------------------------------
(***************************************************************************)
(* C05.  Spherical-shell position cells.  Radii r_1 < ... < r_T are        *)
(* integers in units of 0.05 A chosen EVEN, so that the shell boundaries   *)
(* R_k (midpoints; R_T = r_T + (r_T - r_{T-1})/2; single radius: R = 2r;   *)
(* R_0 = 0) are integers too.  Position cell p = k*nO + o  (shell k and    *)
(* direction o, both 0-based).  Every output entry is a pair               *)
(*      <<rational coefficient, direction atom>>                           *)
(* atoms: <<"area", o>>, <<"arc", o, o'>>, <<"angle", o, o'>>, <<"one">>.  *)
(*                                                                         *)
(* Declarative: the statement of C05.   Operational: the construction of   *)
(* PositionGrid._get_N_N_position_array (off-diagonals at +-nO built from  *)
(* between_radii[:-1] resp. increments[1:] + [last]; the unit-sphere block *)
(* repeated on the diagonal and scaled per shell).                         *)
(***************************************************************************)
EXTENDS Integers, Sequences, FiniteSets, TLC

Rat(a, b) == <<a, b>>
REq(p, q) == p[1] * q[2] = q[1] * p[2]

(* shell boundaries, R[0] = 0 is handled by Rb *)
Between(r) == LET T == Len(r) IN
  IF T = 1 THEN <<2 * r[1]>>
  ELSE [k \in 1 .. T |-> IF k < T THEN (r[k] + r[k + 1]) \div 2 ELSE r[T] + (r[T] - r[T - 1]) \div 2]
Rb(r, k) == IF k = 0 THEN 0 ELSE Between(r)[k]          \* boundary above shell k (1-based shells here)
Cube(x) == x * x * x

(* ------------------------------- declarative ------------------------------- *)
(* cells are numbered p = (k-1)*nO + o with shell k in 1..T, direction o in 0..nO-1 *)
ShellOf(p, nO) == (p \div nO) + 1
DirOf(p, nO) == p % nO
DeclVol(r, nO, p) == <<Rat(Cube(Rb(r, ShellOf(p, nO))) - Cube(Rb(r, ShellOf(p, nO) - 1)), 3), <<"area", DirOf(p, nO)>>>>

DeclPairs(r, nO, adj) ==
  LET n == Len(r) * nO IN
  {pq \in (0 .. (n - 1)) \X (0 .. (n - 1)) :
      \/ (pq[2] = pq[1] + nO \/ pq[1] = pq[2] + nO)                                           \* radially above / below
      \/ (ShellOf(pq[1], nO) = ShellOf(pq[2], nO) /\ <<DirOf(pq[1], nO), DirOf(pq[2], nO)>> \in adj)}
DeclBorder(r, nO, p, q) ==
  IF ShellOf(p, nO) # ShellOf(q, nO)
  THEN LET k == IF p < q THEN ShellOf(p, nO) ELSE ShellOf(q, nO) IN <<Rat(Rb(r, k) * Rb(r, k), 1), <<"area", DirOf(p, nO)>>>>
  ELSE LET k == ShellOf(p, nO) IN <<Rat(Rb(r, k) * Rb(r, k) - Rb(r, k - 1) * Rb(r, k - 1), 2), <<"arc", DirOf(p, nO), DirOf(q, nO)>>>>
DeclDist(r, nO, p, q) ==
  IF ShellOf(p, nO) # ShellOf(q, nO)
  THEN LET k == IF p < q THEN ShellOf(p, nO) ELSE ShellOf(q, nO) IN <<Rat(r[k + 1] - r[k], 1), <<"one">>>>
  ELSE <<Rat(r[ShellOf(p, nO)], 1), <<"angle", DirOf(p, nO), DirOf(q, nO)>>>>

(* ------------------------------- operational ------------------------------- *)
(* diags(d, offset = +-nO, shape n x n): entry (i, i+nO) = d[i+1] for i+nO < n (longer d is truncated) *)
OpRadialBorderDiag(r, nO, bug) ==      \* for layer, radius in between_radii[:-1]: areas * radius^2
  LET T == Len(r)
      B == Between(r)
  IN [i \in 1 .. (T - 1) * nO |->
        LET k == ((i - 1) \div nO) + 1 IN
        <<Rat((IF bug = "boundaryOfUpperShell" THEN B[k + 1] * B[k + 1] ELSE B[k] * B[k]), 1), <<"area", (i - 1) % nO>>>>]
OpRadialDistDiag(r, nO, bug) ==        \* increments[1:] + [last], each repeated nO times
  LET T == Len(r)
      inc == [k \in 1 .. T |-> IF k < T THEN r[k + 1] - r[k] ELSE (IF T > 1 THEN r[T] - r[T - 1] ELSE 0)]
      inc2 == IF bug = "equalSpacing" THEN [k \in 1 .. T |-> IF T > 1 THEN r[2] - r[1] ELSE 0] ELSE inc
  IN [i \in 1 .. T * nO |-> <<Rat(inc2[((i - 1) \div nO) + 1], 1), <<"one">>>>]
OpShellFactor(r, k, prop, bug) ==
  LET B == Between(r)
      lo == IF k = 1 THEN 0 ELSE B[k - 1]
  IN IF prop = "border" THEN (IF bug = "noSubtraction" THEN Rat(B[k] * B[k], 2) ELSE Rat(B[k] * B[k] - lo * lo, 2))
     ELSE Rat(r[k], 1)

OpEntry(r, nO, adj, prop, p, q, bug) ==      \* <<present, value>>
  LET n == Len(r) * nO
      lo == IF p < q THEN p ELSE q
      hi == IF p < q THEN q ELSE p
  IN IF hi = lo + nO /\ Len(r) > 1
     THEN <<TRUE, IF prop = "border" THEN OpRadialBorderDiag(r, nO, bug)[lo + 1] ELSE OpRadialDistDiag(r, nO, bug)[lo + 1]>>
     ELSE IF ShellOf(p, nO) = ShellOf(q, nO) /\ <<DirOf(p, nO), DirOf(q, nO)>> \in adj
     THEN <<TRUE, <<OpShellFactor(r, ShellOf(p, nO), prop, bug),
                    IF prop = "border" THEN <<"arc", DirOf(p, nO), DirOf(q, nO)>> ELSE <<"angle", DirOf(p, nO), DirOf(q, nO)>>>>>>
     ELSE <<FALSE, <<>>>>

SameEntry(a, b) == REq(a[1], b[1]) /\ a[2] = b[2]

(* ---------------------------------- model ---------------------------------- *)
CONSTANTS Pool, MaxT, MaxO, Bug

VARIABLES r, nO, adj, phase
vars == <<r, nO, adj, phase>>

Increasing(s) == \A i \in 1 .. (Len(s) - 1) : s[i] < s[i + 1]
RadialGrids == {s \in UNION {[1 .. T -> Pool] : T \in 1 .. MaxT} : Increasing(s)}
SymRels(n) == {S \cup {<<p[2], p[1]>> : p \in S} : S \in SUBSET {p \in (0 .. (n - 1)) \X (0 .. (n - 1)) : p[1] < p[2]}}

Init == /\ r \in RadialGrids /\ nO \in 1 .. MaxO /\ adj \in SymRels(nO) /\ phase = "grid"
Build == phase = "grid" /\ phase' = "built" /\ UNCHANGED <<r, nO, adj>>
Spec == Init /\ [][Build]_vars

Cells == 0 .. (Len(r) * nO - 1)
OperationalIsDeclarative == \A p, q \in Cells :
   /\ (<<p, q>> \in DeclPairs(r, nO, adj)) <=> OpEntry(r, nO, adj, "border", p, q, Bug)[1]
   /\ <<p, q>> \in DeclPairs(r, nO, adj) =>
        /\ SameEntry(OpEntry(r, nO, adj, "border", p, q, Bug)[2], DeclBorder(r, nO, p, q))
        /\ SameEntry(OpEntry(r, nO, adj, "dist", p, q, Bug)[2], DeclDist(r, nO, p, q))
(* the radial face between two shells belongs to both cells with the same coefficient: symmetry *)
SymmetricCoefficients == \A pq \in DeclPairs(r, nO, adj) :
   /\ REq(DeclBorder(r, nO, pq[1], pq[2])[1], DeclBorder(r, nO, pq[2], pq[1])[1])
   /\ REq(DeclDist(r, nO, pq[1], pq[2])[1], DeclDist(r, nO, pq[2], pq[1])[1])
(* shell volumes telescope: sum over shells of (R_k^3 - R_{k-1}^3) = R_T^3 *)
RECURSIVE SumCubes(_, _)
SumCubes(rr, k) == IF k = 0 THEN 0 ELSE (Cube(Rb(rr, k)) - Cube(Rb(rr, k - 1))) + SumCubes(rr, k - 1)
Telescoping == SumCubes(r, Len(r)) = Cube(Rb(r, Len(r)))
BoundariesInterleave == /\ \A k \in 1 .. Len(r) : r[k] < Rb(r, k)
                        /\ \A k \in 1 .. (Len(r) - 1) : Rb(r, k) < r[k + 1]
=============================================================================
