SPECIFICATION Spec
POSTCONDITION AllConsumed
