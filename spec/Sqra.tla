--------------------------------- MODULE Sqra ---------------------------------
(***************************************************************************)
(* C01 model.  Init chooses an instance (pattern, S, h, V, energy levels,  *)
(* D, cap); Build runs the OPERATIONAL model of SQRA.get_rate_matrix:      *)
(*   data[e]  = D * S.data[e]                 (stored entry order)         *)
(*   data[e] /= h.tocoo().data[e]             (position by position!)      *)
(*   data[e] /= V[row[e]]                                                  *)
(*   data[e] *= base^min(k[row[e]] - k[col[e]], cap)                       *)
(*   diagonal = - row sum                                                  *)
(* and the invariants compare it with the declarative formula of SqraOps.  *)
(***************************************************************************)
EXTENDS SqraOps, SequencesExt

CONSTANTS N, SH, Vs, Ks, Ds, Caps, Base, Bug
   \* Bug: "none" | "asymmetricS" | "hOtherOrder" | "volumeOfColumn" | "exponentSign" | "symmetricCap" | "lostHalf"

Cells == 0 .. (N - 1)
(* default value sets (cfg files cannot write tuples or negative numbers) *)
CapSet == {-1, 2}        \* no cap / cap at two levels
SHSet == {<<1, 1>>, <<2, 1>>, <<1, 3>>, <<3, 2>>}
VSet3 == {<<1, 2, 3>>, <<3, 1, 2>>, <<2, 2, 1>>}
KSet3 == {<<0, 0, 0>>, <<0, 1, 3>>, <<2, 0, 1>>, <<3, 3, 0>>, <<1, 0, 0>>}
VSet2 == {<<1, 2>>, <<3, 1>>}
KSet2 == {<<0, 0>>, <<0, 3>>, <<2, 0>>, <<1, 0>>}
VSet4 == {<<1, 2, 3, 5>>, <<3, 1, 2, 2>>}
KSet4 == {<<0, 1, 3, 0>>, <<2, 0, 1, 4>>, <<3, 3, 0, 1>>}
UPairs == {p \in Cells \X Cells : p[1] < p[2]}

VARIABLES inst, Q, phase
vars == <<inst, Q, phase>>

SymFun(P, f) == [p \in P \cup {<<q[2], q[1]>> : q \in P} |-> IF p \in P THEN f[p] ELSE f[<<p[2], p[1]>>]]

Init == /\ \E P \in SUBSET UPairs : \E sh \in [P -> SH] : \E v \in Vs : \E ks \in Ks : \E d \in Ds : \E c \in Caps :
             inst = [n |-> N, pat |-> P \cup {<<q[2], q[1]>> : q \in P},
                     S |-> SymFun(P, [p \in P |-> sh[p][1]]), h |-> SymFun(P, [p \in P |-> sh[p][2]]),
                     V |-> v, k |-> ks, D |-> d, cap |-> c, base |-> Base]
        /\ Q = <<>> /\ phase = "input"

(* stored entry order of a row-major (csr / row-major coo) matrix *)
RowMajor(P) == SortSeq(SetToSeq(P), LAMBDA a, b : a[1] < b[1] \/ (a[1] = b[1] /\ a[2] < b[2]))

OpData ==
  LET ord == RowMajor(inst.pat)
      hord == IF Bug = "hOtherOrder" THEN [e \in 1 .. Len(ord) |-> ord[Len(ord) + 1 - e]] ELSE ord   \* h stored in another entry order
      dk(e) == inst.k[ord[e][1] + 1] - inst.k[ord[e][2] + 1]
      ex(e) == IF Bug = "exponentSign" THEN -dk(e)
               ELSE IF Bug = "symmetricCap" /\ inst.cap >= 0 /\ -dk(e) > inst.cap THEN -inst.cap
               ELSE IF Bug = "lostHalf" THEN 2 * dk(e)
               ELSE dk(e)
      vol(e) == inst.V[(IF Bug = "volumeOfColumn" THEN ord[e][2] ELSE ord[e][1]) + 1]
      sval(e) == IF Bug = "asymmetricS" /\ ord[e][1] > ord[e][2] THEN inst.S[ord[e]] + 1 ELSE inst.S[ord[e]]   \* one direction of a pair differs (the shape of the fold defect)
  IN [e \in 1 .. Len(ord) |->
        RMul(RDiv(RDiv(R(inst.D * sval(e)), R(inst.h[hord[e]])), R(vol(e))), PowR(inst.base, Capped(ex(e), inst.cap)))]

OpMatrix ==
  LET ord == RowMajor(inst.pat)
      data == OpData
      off(i, j) == IF <<i, j>> \in inst.pat THEN data[CHOOSE e \in 1 .. Len(ord) : ord[e] = <<i, j>>] ELSE RZero
      rs(i) == RSumSeq([j \in 1 .. N |-> off(i, j - 1)])
  IN [i \in Cells |-> [j \in Cells |-> IF i = j THEN RNeg(rs(i)) ELSE off(i, j)]]

Build == phase = "input" /\ phase' = "built" /\ Q' = OpMatrix /\ UNCHANGED inst
Spec == Init /\ [][Build]_vars

-----------------------------------------------------------------------------
Built == phase = "built"
OperationalIsDeclarative == Built => \A i, j \in Cells : REq(Q[i][j], QFull(inst, i, j))
OnPattern == Built => \A i, j \in Cells : (i # j /\ <<i, j>> \notin inst.pat) => Q[i][j][1] = 0
RowSumZero == Built => \A i \in Cells : RSumSeq([j \in 1 .. N |-> Q[i][j - 1]])[1] = 0
DetailedBalance == Built => \A p \in inst.pat :
   LET dk == inst.k[p[1] + 1] - inst.k[p[2] + 1] IN
   (inst.cap < 0 \/ (dk < inst.cap /\ -dk < inst.cap)) =>
      REq(RMul(RMul(R(inst.V[p[1] + 1]), PowR(inst.base, -2 * inst.k[p[1] + 1])), Q[p[1]][p[2]]),
          RMul(RMul(R(inst.V[p[2] + 1]), PowR(inst.base, -2 * inst.k[p[2] + 1])), Q[p[2]][p[1]]))
(* C14: with a symmetric S/h the weight pi_i = V_i base^(-2 k_i) (Boltzmann x volume) is stationary: pi Q = 0 *)
NoCapActive == inst.cap < 0 \/ \A p \in inst.pat : inst.k[p[1] + 1] - inst.k[p[2] + 1] < inst.cap
StationaryIsBoltzmannVolume == (Built /\ NoCapActive) => \A j \in Cells :
   RSumSeq([i \in 1 .. N |-> RMul(RMul(R(inst.V[i]), PowR(inst.base, -2 * inst.k[i])), Q[i - 1][j])])[1] = 0
ShiftInvariant == Built => \A i, j \in Cells :
   REq(QFull(inst, i, j), QFull([inst EXCEPT !.k = [c \in 1 .. N |-> inst.k[c] + 1]], i, j))
LinearInD == Built => \A i, j \in Cells :
   REq(RMul(R(2), QFull(inst, i, j)), QFull([inst EXCEPT !.D = 2 * inst.D], i, j))
=============================================================================
