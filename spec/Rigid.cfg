SPECIFICATION Spec
CONSTANTS
  MaxFrames = 2
  Bug = "none"
INVARIANT FramesAreRigidPlacements
INVARIANT OneFramePerRow
INVARIANT DistancesPreserved
INVARIANT MatrixOrthogonal
