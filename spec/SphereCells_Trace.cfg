SPECIFICATION Spec
POSTCONDITION AllConsumed
