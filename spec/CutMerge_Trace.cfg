SPECIFICATION Spec
POSTCONDITION AllConsumed
