SPECIFICATION Spec
POSTCONDITION AllConsumed
