------------------------------- MODULE SqraOps -------------------------------
(***************************************************************************)
(* C01 / C14.  The SqRA rate matrix on the exact energy lattice.           *)
(* Energies are integer levels k_i in units u(T) = 2RT ln(base), so that   *)
(* exp((E_i - E_j)/(2RT)) = base^(k_i - k_j).  The documented overflow cap *)
(* (500 kJ/mol on E_i - E_j, one-sided) is `cap' levels (cap < 0: none).   *)
(* Rationals are pairs <<num, den>>, den > 0, compared by cross            *)
(* multiplication.                                                         *)
(***************************************************************************)
EXTENDS Integers, Sequences, FiniteSets, FiniteSetsExt, TLC

R(a) == <<a, 1>>
RMul(p, q) == <<p[1] * q[1], p[2] * q[2]>>
RDiv(p, q) == IF q[1] > 0 THEN <<p[1] * q[2], p[2] * q[1]>> ELSE <<-(p[1] * q[2]), -(p[2] * q[1])>>
RECURSIVE Gcd(_, _)
Gcd(a, b) == IF b = 0 THEN a ELSE Gcd(b, a % b)
AbsI(a) == IF a < 0 THEN -a ELSE a
Norm(p) == LET g == Gcd(AbsI(p[1]), p[2]) IN IF g = 0 THEN p ELSE <<p[1] \div g, p[2] \div g>>
RAdd(p, q) == Norm(<<p[1] * q[2] + q[1] * p[2], p[2] * q[2]>>)
RNeg(p) == <<-p[1], p[2]>>
REq(p, q) == p[1] * q[2] = q[1] * p[2]
RZero == <<0, 1>>

RECURSIVE PowI(_, _)
PowI(b, e) == IF e = 0 THEN 1 ELSE b * PowI(b, e - 1)
PowR(b, e) == IF e >= 0 THEN <<PowI(b, e), 1>> ELSE <<1, PowI(b, -e)>>
MinI(a, b) == IF a < b THEN a ELSE b

Capped(dk, cap) == IF cap >= 0 THEN MinI(dk, cap) ELSE dk

(* declarative: Q_ij = D S_ij / (h_ij V_i) * base^min(k_i - k_j, cap) on the pattern *)
QOff(D, S, h, Vi, ki, kj, base, cap) ==
  RMul(RDiv(R(D * S), R(h * Vi)), PowR(base, Capped(ki - kj, cap)))

(* a problem instance: n cells 0..n-1; pat = set of <<i,j>> (symmetric, irreflexive);
   S, h functions on pat; V, k sequences (1-based: cell i is V[i+1]) *)
QDecl(inst, i, j) ==
  IF <<i, j>> \in inst.pat
  THEN QOff(inst.D, inst.S[<<i, j>>], inst.h[<<i, j>>], inst.V[i + 1], inst.k[i + 1], inst.k[j + 1], inst.base, inst.cap)
  ELSE RZero

RECURSIVE RSumSeq(_)
RSumSeq(s) == IF s = <<>> THEN RZero ELSE RAdd(Head(s), RSumSeq(Tail(s)))
RowOffSum(inst, i) == RSumSeq([j \in 1 .. inst.n |-> IF j - 1 = i THEN RZero ELSE QDecl(inst, i, j - 1)])
QFull(inst, i, j) == IF i = j THEN RNeg(RowOffSum(inst, i)) ELSE QDecl(inst, i, j)

(* Boltzmann x volume weight ratio  pi_i / pi_j = V_i base^(-2 k_i) / (V_j base^(-2 k_j)) *)
DetailedBalanceAt(inst, i, j) ==
  LET a == RMul(RMul(R(inst.V[i + 1]), PowR(inst.base, -2 * inst.k[i + 1])), QDecl(inst, i, j))
      b == RMul(RMul(R(inst.V[j + 1]), PowR(inst.base, -2 * inst.k[j + 1])), QDecl(inst, j, i))
  IN REq(a, b)

(* wide energy ranges: an off-diagonal entry as  m * base^e / 36  with m a positive integer not divisible by base
   (the formula gives m0 = 36 D S / (h V_i), e0 = min(k_i - k_j, cap); powers of base are moved from m0 into e0) *)
RECURSIVE StripBase(_, _, _)
StripBase(m, e, base) == IF m # 0 /\ m % base = 0 THEN StripBase(m \div base, e + 1, base) ELSE <<m, e>>
QWide(inst, i, j) ==
  LET num == 36 * inst.D * inst.S[<<i, j>>]
      den == inst.h[<<i, j>>] * inst.V[i + 1]
  IN IF num % den # 0 THEN <<0, 0>>
     ELSE StripBase(num \div den, Capped(inst.k[i + 1] - inst.k[j + 1], inst.cap), inst.base)
=============================================================================
