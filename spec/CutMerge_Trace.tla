--------------------------- MODULE CutMerge_Trace ---------------------------
(***************************************************************************)
(* C13 combined step, code -> spec: one record per call of the real        *)
(* SQRA.cut_and_merge                                                      *)
(*  [tid, n, kind, adj, e, lower2, upper2, haslist, ilist, mat, exact, err]*)
(***************************************************************************)
EXTENDS Integers, Sequences, FiniteSets, TLC, Json, IOUtils, SequencesExt

O == INSTANCE MergeOps
Log == JsonDeserialize(IOEnv.TRACE_FILE)

VARIABLE l
Rec == Log[l]
SeqToSet(s) == {s[i] : i \in 1 .. Len(s)}
AdjOf(r) == {<<p[1], p[2]>> : p \in SeqToSet(r.adj)}

Clause(r) ==
  LET g == O!CutGroups(r.n, AdjOf(r), r.e, r.lower2, r.upper2)
      ident == {{c} : c \in O!CellsOf(r.n)}
      unchanged == O!MatOf(r.n, r.kind, ident, FALSE)
  IN IF r.err # "" THEN "exception:" \o r.err
     ELSE IF ~r.exact THEN "non-integer entry"
     ELSE IF ~r.haslist
          THEN IF r.mat = unchanged THEN "ok" ELSE "reduced matrix returned without an index list"
     ELSE IF Len(r.ilist) # Len(r.mat) THEN "list length differs from matrix rows"
     ELSE IF r.ilist # O!IndexList(g) THEN "index list"
     ELSE IF r.mat # O!MatOf(r.n, r.kind, g, r.upper2 >= 0) THEN "matrix"
     ELSE "ok"

Init == l = 1 /\ TLCSet(1, 0)
Step == /\ l <= Len(Log)
        /\ LET c == Clause(Rec) IN IF c = "ok" THEN TRUE ELSE PrintT(<<"REJECT", Rec.tid, c, 0>>)
        /\ TLCSet(1, l)
        /\ l' = l + 1
Spec == Init /\ [][Step]_l
AllConsumed == TLCGet(1) = Len(Log)
=============================================================================
