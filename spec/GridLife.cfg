SPECIFICATION Spec
CONSTANTS
  Specs <- SmallSpecs
  Getters = {"array", "volumes"}
  MaxObjs = 2
  MaxDraws = 2
  UserSeeds = {7, 15}
  Bug = "none"
INVARIANT Reproducible
INVARIANT GetterValueFixed
PROPERTY HistoryIndependent
PROPERTY GettersPure
