----------------------------- MODULE Molgri_Trace -----------------------------
(***************************************************************************)
(* C14 (and the pipeline, DESIGN §5), code -> spec.  The trace is the       *)
(* sequence of pipeline events recorded while driving the package's own     *)
(* classes:  GridWriter -> files -> GridReader -> SQRA.get_rate_matrix ->   *)
(* DecompositionTool.get_decomposition, one grid (= one Spec id) after the  *)
(* other.  Every event is matched with the action of Molgri.tla of the same *)
(* name (so the artefact-store invariants are checked along the trace) and  *)
(* its logged fields are checked:                                           *)
(*  NewSpec   [spec]                                                        *)
(*  BuildGrid []                                                            *)
(*  Inspect   []                       the partial matrices of run_grid     *)
(*                                     (only_position / only_orientation)   *)
(*                                     asked of the grid object; stuttering *)
(*  Write/Read[art, digest]            digest id of shape+values+order      *)
(*  ComputeEnergy []                   lattice energies assigned per cell   *)
(*  NewProcess []                      a new job: memory empty, files stay  *)
(*  RuleRead/RuleAct/RuleWrite [rule, art | act]   events DERIVED from the  *)
(*       input / output declarations of the workflow files (growth G08)     *)
(*  An event whose action is not ENABLED in the pipeline model is rejected  *)
(*  ("the pipeline model does not allow ...") and the trace goes on.        *)
(*  CheckPT   [nframes, want, dev3, m1dev3, tol3, selok, structok]          *)
(*       the pseudotrajectory FILES read back with the package's reader:    *)
(*       deviations from the prescribed placements in 1e-3 Angstrom, tol3 = *)
(*       the precision of the file format                                   *)
(*  BuildRate [n, adj <<[i,j]>>, cond <<[i,j,id]>>, sh <<[i,j,id]>>,        *)
(*             rowsum9, connected]                                          *)
(*       cond = class of Q_ij V_i base^(k_j-k_i) / D  (the conductance),    *)
(*       sh   = class of S_ij / h_ij from the files read back               *)
(*  Decompose [lam <<int>>, dense <<int>>, imag, spread, k]                 *)
(*       eigenvalues in units of 1e-6 of the spectral radius; spread =      *)
(*       (max-min)/mean of v_i/pi_i of the leading left eigenvector, 1e-6   *)
(***************************************************************************)
EXTENDS Molgri, Json, IOUtils

Log == JsonDeserialize(IOEnv.TRACE_FILE)
VARIABLES l, written     \* position; digest written per (spec, art)
tvars == <<vars, l, written>>
Ev == Log[l]
ToSet(s) == {s[i] : i \in 1 .. Len(s)}
Abs(x) == IF x < 0 THEN -x ELSE x
Reject(c) == PrintT(<<"REJECT", Ev.tid, c, l>>)
Check(c) == IF c = "ok" THEN TRUE ELSE Reject(c)
Band == 1            \* solver band: 1e-6 of the spectral radius
SpreadBand == 10     \* 1e-5

RateClause(e) ==
  LET A == {<<p[1], p[2]>> : p \in ToSet(e.adj)}
      C == {<<p[1], p[2], p[3]>> : p \in ToSet(e.cond)}
      SH == {<<p[1], p[2], p[3]>> : p \in ToSet(e.sh)}
  IN IF e.err # "" THEN "exception:" \o e.err
     ELSE IF {<<p[1], p[2]>> : p \in C} # A THEN "off-diagonal pattern of the rate matrix is not the saved adjacency"
     ELSE IF \E p \in C : <<p[2], p[1], p[3]>> \notin C THEN "detailed balance w.r.t. V_i exp(-E_i/RT) fails (conductance not symmetric)"
     ELSE IF C # SH THEN "conductance is not S_ij/h_ij of the saved files in grid order"
     ELSE IF e.rowsum9 > 1000 THEN "rows do not sum to zero"
     ELSE "ok"

RECURSIVE NonIncreasing(_)
NonIncreasing(s) == Len(s) < 2 \/ (s[1] >= s[2] /\ NonIncreasing(Tail(s)))

EigClause(e) ==
  IF e.err # "" THEN "exception:" \o e.err
  ELSE IF e.imag > Band THEN "eigenvalues are not real"
  ELSE IF ~NonIncreasing(e.lam) THEN "eigenvalues are not sorted in descending order"
  ELSE IF Len(e.lam) # Len(e.dense) \/ \E i \in 1 .. Len(e.lam) : Abs(e.lam[i] - e.dense[i]) > Band THEN "eigenvalues disagree with the dense solver"
  ELSE IF Abs(e.lam[1]) > Band THEN "largest eigenvalue is not zero"
  ELSE IF e.spread > SpreadBand THEN "leading left eigenvector is not proportional to V_i exp(-E_i/RT)"
  ELSE "ok"

(* pseudotrajectory files read back (growth G05): one frame per grid row, in row order, molecule 1 untouched *)
PtClause(e) ==
  IF e.err # "" THEN "exception:" \o e.err
  ELSE IF e.nframes # e.want THEN "the pseudotrajectory files do not hold one frame per grid row"
  ELSE IF e.m1dev3 > e.tol3 THEN "the first molecule is not at rest at its centred coordinates in every frame read back"
  ELSE IF e.dev3 > e.tol3 THEN "a frame read back is not the rigid placement prescribed by the grid row of the same index"
  ELSE IF ~e.selok THEN "the second-molecule selection of the reader is not the atoms of the second molecule"
  ELSE IF ~e.structok THEN "the structure file is not frame 0"
  ELSE "ok"

TraceInit == Init /\ cur = Log[1].tid /\ l = 1 /\ written = <<>> /\ TLCSet(1, 0)

Key(a) == <<cur, a>>
(* is the event's action enabled in the pipeline model at this point?  (ENABLED of the model's own actions, so the guards
   are never restated here); a disabled event is rejected and the trace goes on from the unchanged state *)
(* events derived from the workflow files (growth G08): the rule's action by name, no logged values *)
RuleAction(a) == \/ (a = "BuildGrid" /\ BuildGrid) \/ (a = "GenPT" /\ GenPT) \/ (a = "ComputeEnergy" /\ ComputeEnergy)
                 \/ (a = "BuildRate" /\ BuildRate) \/ (a = "Decompose" /\ Decompose) \/ (a = "Simulate" /\ Simulate)
                 \/ (a = "Assign" /\ Assign) \/ (a = "BuildMsm" /\ BuildMsm)
Enabled(e) ==
  CASE e.ev = "NewSpec" -> ENABLED NewSpec(e.tid)
    [] e.ev = "RuleAct" -> ENABLED RuleAction(e.act)
    [] e.ev = "RuleRead" -> ENABLED Read(e.art)
    [] e.ev = "RuleWrite" -> ENABLED Write(e.art)
    [] e.ev = "NewProcess" -> TRUE
    [] e.ev = "BuildGrid" -> ENABLED BuildGrid
    [] e.ev = "Write" -> ENABLED Write(e.art)
    [] e.ev = "Read" -> ENABLED Read(e.art)
    [] e.ev = "GenPT" -> ENABLED GenPT
    [] e.ev = "ComputeEnergy" -> ENABLED ComputeEnergy
    [] e.ev = "BuildRate" -> ENABLED BuildRate
    [] e.ev \in {"Decompose", "DecomposeMsm"} -> ENABLED Decompose
    [] e.ev = "Simulate" -> ENABLED Simulate
    [] e.ev = "Assign" -> ENABLED Assign
    [] e.ev = "BuildMsm" -> ENABLED BuildMsm
    [] OTHER -> TRUE
ErrOf(e) == IF "err" \in DOMAIN e THEN e.err ELSE ""
Taken ==
     \/ Ev.ev = "NewSpec" /\ NewSpec(Ev.tid) /\ UNCHANGED written
     \/ Ev.ev = "NewProcess" /\ NewProcess /\ UNCHANGED written
     \/ Ev.ev = "RuleAct" /\ RuleAction(Ev.act) /\ UNCHANGED written
     \/ Ev.ev = "RuleRead" /\ Read(Ev.art) /\ UNCHANGED written
     \/ Ev.ev = "RuleWrite" /\ Write(Ev.art) /\ UNCHANGED written
     \/ Ev.ev = "BuildGrid" /\ BuildGrid /\ Check(IF Ev.err # "" THEN "exception:" \o Ev.err ELSE "ok") /\ UNCHANGED written
     \/ Ev.ev = "Write" /\ Write(Ev.art) /\ Check(IF Ev.err # "" THEN "exception:" \o Ev.err ELSE "ok")
                        /\ written' = (Key(Ev.art) :> Ev.digest) @@ written
     \/ Ev.ev = "Read" /\ Read(Ev.art)
                       /\ Check(IF Ev.err # "" THEN "exception:" \o Ev.err
                                ELSE IF Key(Ev.art) \notin DOMAIN written \/ written[Key(Ev.art)] # Ev.digest
                                     THEN "read back differs from what was written: " \o Ev.art ELSE "ok")
                       /\ UNCHANGED written
     \/ Ev.ev = "Inspect" /\ Check(IF Ev.err # "" THEN "exception:" \o Ev.err ELSE "ok") /\ UNCHANGED <<vars, written>>     \* partial (position-only / orientation-only) matrices asked of the grid object: no artefact changes
     \/ Ev.ev = "GenPT" /\ GenPT /\ Check(IF Ev.err # "" THEN "exception:" \o Ev.err ELSE "ok") /\ UNCHANGED written
     \/ Ev.ev = "CheckPT" /\ Check(PtClause(Ev)) /\ UNCHANGED <<vars, written>>
     \/ Ev.ev = "ComputeEnergy" /\ ComputeEnergy /\ UNCHANGED written
     \/ Ev.ev = "BuildRate" /\ BuildRate /\ Check(RateClause(Ev)) /\ UNCHANGED written
     \/ Ev.ev = "Decompose" /\ Decompose /\ Check(EigClause(Ev)) /\ UNCHANGED written
     \/ Ev.ev = "Simulate" /\ Simulate /\ UNCHANGED written
     \/ Ev.ev = "Assign" /\ Assign /\ UNCHANGED written
                         /\ Check(IF Ev.err # "" THEN "exception:" \o Ev.err
                                  ELSE IF Ev.got # Ev.truth THEN "frames are not assigned to the cells they were placed in" ELSE "ok")
     \/ Ev.ev = "BuildMsm" /\ BuildMsm /\ UNCHANGED written
                           /\ Check(IF Ev.err # "" THEN "exception:" \o Ev.err
                                    ELSE IF Ev.rowsum9 > 1000 THEN "rows of visited cells do not sum to one"
                                    ELSE IF Ev.asym9 > 1000 THEN "detailed balance w.r.t. visit counts fails" ELSE "ok")
     \/ Ev.ev = "DecomposeMsm" /\ Decompose /\ UNCHANGED written
                               /\ Check(IF Ev.err # "" THEN "exception:" \o Ev.err
                                        ELSE IF Ev.lam1_9 > 1000 THEN "largest eigenvalue of the MSM is not 1"
                                        ELSE IF Ev.spread6 > 10 THEN "stationary vector is not proportional to the visit counts" ELSE "ok")
TraceNext ==
  /\ l <= Len(Log)
  /\ IF Enabled(Ev) THEN Taken
     ELSE /\ Reject("the pipeline model does not allow " \o Ev.ev \o (IF "art" \in DOMAIN Ev THEN "(" \o Ev.art \o ")" ELSE "")
                    \o (IF "act" \in DOMAIN Ev THEN "(" \o Ev.act \o ")" ELSE "")
                    \o " here: an artefact it needs is not there" \o (IF "rule" \in DOMAIN Ev THEN " [rule " \o Ev.rule \o "]" ELSE ""))
          /\ UNCHANGED <<vars, written>>
  /\ l' = l + 1
  /\ TLCSet(1, l)
TraceSpec == TraceInit /\ [][TraceNext]_tvars
AllConsumed == TLCGet(1) = Len(Log)
=============================================================================
