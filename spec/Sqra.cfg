SPECIFICATION Spec
CONSTANTS
  N = 3
  SH <- SHSet
  Vs <- VSet3
  Ks <- KSet3
  Ds = {1, 3}
  Caps <- CapSet
  Base = 2
  Bug = "none"
INVARIANT OperationalIsDeclarative
INVARIANT OnPattern
INVARIANT RowSumZero
INVARIANT DetailedBalance
INVARIANT ShiftInvariant
INVARIANT LinearInD
