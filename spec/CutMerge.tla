------------------------------ MODULE CutMerge ------------------------------
(***************************************************************************)
(* C13, combined step SQRA.cut_and_merge(matrix, T, lower, upper).         *)
(* Model: inputs are chosen in Init (all symmetric adjacency patterns, all *)
(* energy levels, all four present/absent combinations of the limits), one *)
(* action Cut computes the outcome the statement demands:                  *)
(*   either (unchanged matrix, no list)  or  (lumped matrix, list with one *)
(*   group per row).                                                       *)
(***************************************************************************)
EXTENDS MergeOps, TLC

CONSTANTS N, Levels, Limits, MatKind

NoLimit == -1
DefaultLimits == {NoLimit, 1, 3}     \* cfg files cannot write negative numbers
Cells == CellsOf(N)
Pairs == {p \in Cells \X Cells : p[1] < p[2]}
Sym(P) == P \cup {<<p[2], p[1]>> : p \in P}

VARIABLES adj, e, lower2, upper2, phase, hasList, outList, outMat
vars == <<adj, e, lower2, upper2, phase, hasList, outList, outMat>>


Init == /\ adj \in {Sym(P) : P \in SUBSET Pairs}
        /\ e \in [1 .. N -> Levels]
        /\ lower2 \in Limits
        /\ upper2 \in Limits
        /\ phase = "input"
        /\ hasList = FALSE
        /\ outList = <<>>
        /\ outMat = MatOf(N, MatKind, {{c} : c \in Cells}, FALSE)

(* the statement's contract; the spec returns the list whenever a limit is given *)
Cut == /\ phase = "input"
       /\ phase' = "done"
       /\ LET g == CutGroups(N, adj, e, lower2, upper2) IN
            IF lower2 < 0 /\ upper2 < 0
            THEN UNCHANGED <<hasList, outList, outMat>>
            ELSE /\ hasList' = TRUE
                 /\ outList' = IndexList(g)
                 /\ outMat' = MatOf(N, MatKind, g, upper2 >= 0)
       /\ UNCHANGED <<adj, e, lower2, upper2>>

Spec == Init /\ [][Cut]_vars

Contract == phase = "done" =>
   \/ ~hasList /\ outMat = MatOf(N, MatKind, {{c} : c \in Cells}, FALSE)
   \/ /\ hasList
      /\ Len(outList) = Len(outMat)
      /\ \A r \in 1 .. Len(outMat) : Len(outMat[r]) = Len(outList)
      /\ \A r, c \in 1 .. Len(outList) : r # c => ToSet(outList[r]) \cap ToSet(outList[c]) = {}

(* cells above the upper limit are gone (together with everything lumped with them);
   without a lower limit exactly those are gone *)
Remaining == UNION {ToSet(outList[r]) : r \in 1 .. Len(outList)}
Membership == (phase = "done" /\ hasList) =>
   /\ Remaining \subseteq Cells
   /\ upper2 >= 0 => Remaining \cap CutTooHigh(N, e, upper2) = {}
   /\ upper2 < 0 => Remaining = Cells
   /\ (upper2 >= 0 /\ lower2 < 0) => Remaining = Cells \ CutTooHigh(N, e, upper2)

(* only cells connected through low-barrier adjacent pairs share a group *)
GroupsAreLowBarrierComponents == (phase = "done" /\ hasList /\ lower2 < 0) =>
   \A r \in 1 .. Len(outList) : Len(outList[r]) = 1
=============================================================================
