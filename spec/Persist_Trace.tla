---------------------------- MODULE Persist_Trace ----------------------------
(***************************************************************************)
(* C20 (grids), code -> spec: events of GridWriter / GridReader (and of the *)
(* run_grid recipe's direct numpy/scipy calls) on one directory:            *)
(*   [tid, ev: "write"|"read", art, digest, shape, order (digest of the     *)
(*    stored entry order for sparse artefacts)]                             *)
(* tid is the grid; a new tid starts with an empty store.                   *)
(***************************************************************************)
EXTENDS Integers, Sequences, FiniteSets, TLC, Json, IOUtils

Log == JsonDeserialize(IOEnv.TRACE_FILE)
Arts == {"array", "volumes", "adjacency", "borders", "distances"}
VARIABLES l, store, cur
vars == <<l, store, cur>>
Ev == Log[l]
Empty == [a \in Arts |-> <<>>]

Init == l = 1 /\ store = Empty /\ cur = -1 /\ TLCSet(1, 0)
Step == /\ l <= Len(Log)
        /\ LET st == IF Ev.tid # cur THEN Empty ELSE store
               content == <<Ev.digest, Ev.shape, Ev.order>>
           IN /\ IF Ev.err # "" THEN PrintT(<<"REJECT", Ev.tid, "exception:" \o Ev.err \o " in " \o Ev.ev \o " " \o Ev.art, l>>)
                 ELSE IF Ev.ev = "read" /\ st[Ev.art] = <<>> THEN PrintT(<<"REJECT", Ev.tid, "read before write", l>>)
                 ELSE IF Ev.ev = "read" /\ st[Ev.art][2] # Ev.shape THEN PrintT(<<"REJECT", Ev.tid, "shape of " \o Ev.art, l>>)
                 ELSE IF Ev.ev = "read" /\ st[Ev.art][3] # Ev.order THEN PrintT(<<"REJECT", Ev.tid, "pattern / entry order of " \o Ev.art, l>>)
                 ELSE IF Ev.ev = "read" /\ st[Ev.art][1] # Ev.digest THEN PrintT(<<"REJECT", Ev.tid, "values of " \o Ev.art, l>>)
                 ELSE TRUE
              /\ store' = IF Ev.ev = "write" /\ Ev.err = "" THEN [st EXCEPT ![Ev.art] = content] ELSE st
        /\ cur' = Ev.tid
        /\ l' = l + 1
        /\ TLCSet(1, l)
Spec == Init /\ [][Step]_vars
AllConsumed == TLCGet(1) = Len(Log)
=============================================================================
