SPECIFICATION Spec
POSTCONDITION AllConsumed
