SPECIFICATION Spec
POSTCONDITION AllConsumed
