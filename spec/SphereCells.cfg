SPECIFICATION Spec
INVARIANT SanityEuler
INVARIANT SanityThree
INVARIANT SanitySymmetric
INVARIANT SanityDegrees
