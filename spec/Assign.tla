-------------------------------- MODULE Assign --------------------------------
(***************************************************************************)
(* C11.  Frame assignment = geometric membership in the grid cell.          *)
(*   Cell = (T*nO + O)*nB + B                                               *)
(*   T = index of the nearest radius (equivalently: the shell whose         *)
(*       midpoint boundaries contain the centre-of-mass distance),          *)
(*   O = index of the nearest direction, B = index of the grid rotation     *)
(*       with the smallest rotation angle to the molecule's rotation;       *)
(*   beyond the outermost boundary: NaN unless outliers are included.       *)
(* The three decisions are arg-min over integer (fixed-point) distance      *)
(* tables; a decision whose best and second best are closer than Margin is  *)
(* not unique and leaves the record unconstrained.                          *)
(*                                                                          *)
(* Model (exhaustive, integers): nearest-radius and boundary formulations   *)
(* of T agree on every radial grid from a pool and every distance.          *)
(***************************************************************************)
EXTENDS Integers, Sequences, FiniteSets, TLC

Abs(x) == IF x < 0 THEN -x ELSE x
ArgMin(tab) == CHOOSE i \in 1 .. Len(tab) : \A j \in 1 .. Len(tab) : tab[i] <= tab[j]
SecondGap(tab) == LET b == ArgMin(tab) IN
   IF Len(tab) = 1 THEN 1000000000
   ELSE LET rest == {tab[j] : j \in (1 .. Len(tab)) \ {b}}
            m == CHOOSE x \in rest : \A y \in rest : x <= y
        IN m - tab[b]
Unique(tab, margin) == SecondGap(tab) >= margin

CellOf(t, o, b, nO, nB) == (t * nO + o) * nB + b

(* what the statement allows for one placement; -1 stands for NaN, -2 for "anything" *)
Expected(r, margin) ==
  IF ~(Unique(r.dT, margin) /\ Unique(r.dO, margin) /\ Unique(r.dB, margin)) THEN -2
  ELSE IF ~r.outliers /\ Abs(r.norm6 - r.bound6) < margin THEN -2
  ELSE IF ~r.outliers /\ r.norm6 > r.bound6 THEN -1
  ELSE CellOf(ArgMin(r.dT) - 1, ArgMin(r.dO) - 1, ArgMin(r.dB) - 1, Len(r.dO), Len(r.dB))

(* ------------------------------- model ------------------------------- *)
CONSTANTS Pool, MaxT, MaxDist

VARIABLES radii, dist
vars == <<radii, dist>>
Increasing(s) == \A i \in 1 .. (Len(s) - 1) : s[i] < s[i + 1]
Init == /\ radii \in {s \in UNION {[1 .. T -> Pool] : T \in 2 .. MaxT} : Increasing(s)}
        /\ dist \in 0 .. MaxDist
Spec == Init /\ [][UNCHANGED vars]_vars

(* units: radii and distances are EVEN integers' halves do not occur: boundaries 2R_k = r_k + r_{k+1} are compared doubled *)
Bound2(s, k) == IF k = 0 THEN 0 ELSE IF k < Len(s) THEN s[k] + s[k + 1] ELSE 2 * s[k] + (s[k] - s[k - 1])     \* 2 * R_k
ShellOf(s, d) == CHOOSE k \in 1 .. Len(s) : Bound2(s, k - 1) < 2 * d /\ 2 * d <= Bound2(s, k)
Nearest(s, d) == ArgMin([k \in 1 .. Len(s) |-> Abs(s[k] - d)])
OnBoundary(s, d) == \E k \in 1 .. (Len(s) - 1) : 2 * d = Bound2(s, k)
NearestIsShell == (2 * dist <= Bound2(radii, Len(radii)) /\ dist > 0 /\ ~OnBoundary(radii, dist)) =>
                      Nearest(radii, dist) = ShellOf(radii, dist)
=============================================================================
