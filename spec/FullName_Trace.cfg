SPECIFICATION Spec
POSTCONDITION AllConsumed
