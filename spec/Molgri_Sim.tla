----------------------------- MODULE Molgri_Sim -----------------------------
(***************************************************************************)
(* Growth G11, spec -> code.  A sub-specification of Molgri.tla used with   *)
(* `tlc -simulate' to GENERATE behaviours that are replayed into the real   *)
(* classes: the same actions, but a job boundary (NewProcess) or a switch   *)
(* of the grid specification (NewSpec) is only offered every Period-th      *)
(* step, so that random walks get deep into a workflow before memory is     *)
(* wiped.  Every behaviour of SimSpec is a behaviour of Molgri!Spec (k is   *)
(* a step counter only).                                                    *)
(***************************************************************************)
EXTENDS Molgri
CONSTANT Period
VARIABLES k, act        \* step counter; the action taken (name and parameter), read by the replay driver
Work == \/ BuildGrid /\ act' = <<"BuildGrid", "">>
        \/ \E a \in FileArts : (Write(a) /\ act' = <<"Write", a>>) \/ (Read(a) /\ act' = <<"Read", a>>)
        \/ GenPT /\ act' = <<"GenPT", "">>
        \/ ComputeEnergy /\ act' = <<"ComputeEnergy", "">>
        \/ BuildRate /\ act' = <<"BuildRate", "">>
        \/ Decompose /\ act' = <<"Decompose", "">>
        \/ Simulate /\ act' = <<"Simulate", "">>
        \/ Assign /\ act' = <<"Assign", "">>
        \/ BuildMsm /\ act' = <<"BuildMsm", "">>
Boundary == \/ \E s \in Specs : NewSpec(s) /\ act' = <<"NewSpec", "">>
            \/ NewProcess /\ act' = <<"NewProcess", "">>
SimInit == Init /\ k = 0 /\ act = <<"Init", "">>
SimNext == /\ k' = k + 1
           /\ IF k % Period = Period - 1 THEN Boundary ELSE Work
SimSpec == SimInit /\ [][SimNext]_<<vars, k, act>>
(* the invariants of Molgri.tla, checked along every generated behaviour as well *)
=============================================================================
