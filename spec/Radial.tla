-------------------------------- MODULE Radial --------------------------------
(***************************************************************************)
(* C16 model.  Init chooses a request from small pools, Parse computes the *)
(* intended distances, increments and shell boundaries; TLC checks the     *)
(* interleaving r_k < R_k < r_{k+1}, the last and single-radius rules and  *)
(* positivity of the increments for every strictly increasing grid.        *)
(***************************************************************************)
EXTENDS RadialOps

CONSTANTS Pool, MaxLen, Bug      \* Bug: "none" | "lastBoundaryFull" | "noSort"

VARIABLES req, dist, phase
vars == <<req, dist, phase>>

Lists == UNION {[1 .. L -> Pool] : L \in 1 .. MaxLen}
Requests ==
  {[kind |-> "list", vals |-> v] : v \in Lists} \cup
  {[kind |-> "scalar", a |-> x] : x \in Pool} \cup
  {[kind |-> "linspace", a |-> p[1], b |-> p[2], num |-> n] :       \* start <= stop (the statement leaves start > stop open)
       p \in {q \in Pool \X Pool : q[1] <= q[2]}, n \in {-1, 1, 2, 3, 7}} \cup
  {[kind |-> "range", a |-> x, b |-> y, step |-> s] : x \in Pool, y \in Pool, s \in {100, 300, 1000}}

Init == req \in Requests /\ dist = <<>> /\ phase = "request"
Parse == /\ phase = "request" /\ phase' = "parsed"
         /\ dist' = IF Bug = "noSort" /\ req.kind = "list" THEN [i \in 1 .. Len(req.vals) |-> Q(req.vals[i])] ELSE Intended(req)
         /\ UNCHANGED req
Spec == Init /\ [][Parse]_vars

Bnd == IF Bug = "lastBoundaryFull" /\ Len(dist) > 1
       THEN [i \in 1 .. Len(dist) |-> IF i < Len(dist) THEN Boundaries(dist)[i] ELSE QAdd(dist[i], QSub(dist[i], dist[i - 1]))]
       ELSE Boundaries(dist)

Parsed == phase = "parsed" /\ Len(dist) >= 1
Ascending == Parsed => \A i \in 2 .. Len(dist) : ~QLess(dist[i], dist[i - 1])
Interleaved == (Parsed /\ StrictlyIncreasingPositive(dist)) =>
   /\ \A i \in 1 .. Len(dist) : QLess(dist[i], Bnd[i])
   /\ \A i \in 1 .. (Len(dist) - 1) : QLess(Bnd[i], dist[i + 1]) /\ QEq(QAdd(Bnd[i], Bnd[i]), QAdd(dist[i], dist[i + 1]))
LastBoundary == (Parsed /\ StrictlyIncreasingPositive(dist) /\ Len(dist) >= 2) =>
   QEq(QSub(Bnd[Len(dist)], dist[Len(dist)]), QHalf(QSub(dist[Len(dist)], dist[Len(dist) - 1])))
SingleRadius == (Parsed /\ Len(dist) = 1) => QEq(Bnd[1], QAdd(dist[1], dist[1]))
IncrementsPositive == (Parsed /\ StrictlyIncreasingPositive(dist)) =>
   /\ Increments(dist)[1] = dist[1]
   /\ \A i \in 1 .. Len(dist) : QLess(Q(0), Increments(dist)[i])
=============================================================================
