------------------------------- MODULE KVFile -------------------------------
(***************************************************************************)
(* Growth G07.  The "key = value" parameter files (GROMACS .mdp, workflow  *)
(* config) as workflow/snakemake_utils.py edits and reads them:            *)
(*   modify_mdrun(path, param, value)   first line that STARTS WITH param  *)
(*                                      becomes "param = value", else the  *)
(*                                      line is appended                   *)
(*   read_from_mdrun(path, param)       first line that starts with param: *)
(*                                      text before ';', after '=',        *)
(*                                      stripped                           *)
(*   find_config_parameter_value(path, param)   the same without comment   *)
(*                                      handling and without stripping     *)
(* A file is a sequence of lines [key, val, cmt]; keys are sequences over  *)
(* a small alphabet so that "starts with" is the prefix relation - the     *)
(* code matches PREFIXES, not whole keys (named deviation: with the keys   *)
(* nsteps and nstepsfoo in one file, editing `nsteps' may hit the other).  *)
(* The model is operational (what the code does); the map-like properties  *)
(* are stated for prefix-free key sets, and a negative configuration shows *)
(* what breaks without that condition.                                     *)
(***************************************************************************)
EXTENDS Integers, Sequences, FiniteSets, SequencesExt, TLC

CONSTANTS Keys,        \* set of keys (sequences of small integers)
          Vals,        \* set of values
          MaxLines,
          RequirePrefixFree    \* TRUE: only files / requests whose keys are pairwise prefix-free

KeySet == {<<1>>, <<1, 2>>, <<2>>, <<2, 1>>}
PrefixFreeSet(S) == \A a, b \in S : a # b => ~IsPrefix(a, b)
Line(k, v, c) == [key |-> k, val |-> v, cmt |-> c]

VARIABLES file, lastRead, lastOp
vars == <<file, lastRead, lastOp>>

KeysIn(f) == {f[i].key : i \in 1 .. Len(f)}
FirstMatch(f, p) == IF \E i \in 1 .. Len(f) : IsPrefix(p, f[i].key)
                    THEN CHOOSE i \in 1 .. Len(f) : IsPrefix(p, f[i].key) /\ \A j \in 1 .. (i - 1) : ~IsPrefix(p, f[j].key)
                    ELSE 0

ModifyResult(f, p, v) == LET i == FirstMatch(f, p)
                         IN IF i = 0 THEN Append(f, Line(p, v, FALSE)) ELSE [f EXCEPT ![i] = Line(p, v, FALSE)]
ReadResult(f, p) == LET i == FirstMatch(f, p) IN IF i = 0 THEN 0 ELSE f[i].val
(* value 0 = "no such line" (None in the code).  find_config_parameter_value keeps the comment in what it returns: flagged *)
FindResult(f, p) == LET i == FirstMatch(f, p) IN IF i = 0 THEN <<0, FALSE>> ELSE <<f[i].val, f[i].cmt>>

Admissible(f, p) == ~RequirePrefixFree \/ PrefixFreeSet(KeysIn(f) \cup {p})

Init == /\ file \in UNION {[1 .. n -> {Line(k, v, c) : k \in Keys, v \in Vals, c \in BOOLEAN}] : n \in 0 .. 2}
        /\ (RequirePrefixFree => PrefixFreeSet(KeysIn(file)) /\ Cardinality(KeysIn(file)) = Len(file))
        /\ lastRead = 0 /\ lastOp = <<"init">>
Modify(p, v) == /\ Admissible(file, p) /\ (FirstMatch(file, p) # 0 \/ Len(file) < MaxLines)
                /\ file' = ModifyResult(file, p, v) /\ lastOp' = <<"modify", p, v>> /\ UNCHANGED lastRead
Read(p) == /\ Admissible(file, p)
           /\ lastRead' = ReadResult(file, p) /\ lastOp' = <<"read", p>> /\ UNCHANGED file
Next == \E p \in Keys : (\E v \in Vals : Modify(p, v)) \/ Read(p)
Spec == Init /\ [][Next]_vars

(* ---- the map-like contract (holds for prefix-free key sets) ---- *)
AsMap(f) == [k \in KeysIn(f) |-> f[CHOOSE i \in 1 .. Len(f) : f[i].key = k /\ \A j \in 1 .. (i - 1) : f[j].key # k].val]
ReadYourWrite == lastOp[1] = "modify" => ReadResult(file, lastOp[2]) = lastOp[3]
ReadIsMapLookup == lastOp[1] = "read" => lastRead = (IF lastOp[2] \in KeysIn(file) THEN AsMap(file)[lastOp[2]] ELSE 0)
ModifyTouchesOneKey ==
  [][\A p \in Keys, v \in Vals : Modify(p, v) =>
        /\ \A k \in KeysIn(file) \ {p} : k \in KeysIn(file') /\ AsMap(file')[k] = AsMap(file)[k]
        /\ Len(file') = Len(file) + (IF p \in KeysIn(file) THEN 0 ELSE 1)
        /\ (p \in KeysIn(file) => \A i \in 1 .. Len(file) : file[i].key # p => file'[i] = file[i])]_vars   \* lines keep their places
NoDuplicateKeys == Cardinality(KeysIn(file)) = Len(file)
=============================================================================
