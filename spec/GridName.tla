------------------------------ MODULE GridName ------------------------------
(***************************************************************************)
(* C17 model: Init chooses a name (1..MaxLen tokens) and a role, Parse     *)
(* normalises it with the reference table, Reparse parses the standard     *)
(* name again.  TLC checks that the reference table is inside the relation *)
(* (Universal, Forced) for every name and that normalisation is idempotent.*)
(***************************************************************************)
EXTENDS GridNameOps, TLC

CONSTANTS MaxLen, Bug      \* Bug: "none" | "rolesSwapped" | "oneNotZero"

VARIABLES name, role, out, out2, phase
vars == <<name, role, out, out2, phase>>

Names == UNION {[1 .. L -> Tokens] : L \in 1 .. MaxLen}
Nothing == [kind |-> "pending"]

Parser(nm, r) ==
  IF Bug = "rolesSwapped" THEN RefParse(nm, IF r = "o" THEN "b" ELSE "o")
  ELSE IF Bug = "oneNotZero"
       THEN LET p == RefParse(nm, r) IN
            IF p.kind = "Std" /\ p.n = 1 /\ Algs(nm) # {} /\ nm[CHOOSE i \in Algs(nm) : TRUE] \in NonZeroAlgs(r)
            THEN Std(nm[CHOOSE i \in Algs(nm) : TRUE], 1) ELSE p
  ELSE RefParse(nm, r)

Init == /\ name \in Names /\ role \in Roles
        /\ out = Nothing /\ out2 = Nothing /\ phase = "named"

Parse == /\ phase = "named" /\ phase' = "parsed"
         /\ out' = Parser(name, role)
         /\ UNCHANGED <<name, role, out2>>

NumTok(k) == CASE k = 1 -> "1" [] k = 2 -> "2" [] k = 7 -> "7" [] k = 15 -> "15"

Reparse == /\ phase = "parsed" /\ out.kind = "Std" /\ phase' = "reparsed"
           /\ out2' = Parser(<<out.alg, NumTok(out.n)>>, role)
           /\ UNCHANGED <<name, role, out>>

Next == Parse \/ Reparse
Spec == Init /\ [][Next]_vars

UniversalHolds == phase # "named" => Universal(out, role)
ForcedHolds == phase # "named" => (Forced(name, role) = {} \/ out \in Forced(name, role))
Idempotent == phase = "reparsed" => out2 = out
(* the relation never forces two different outcomes and never contradicts Universal *)
RelationConsistent == /\ Cardinality(Forced(name, role)) <= 1
                      /\ \A o \in Forced(name, role) : Universal(o, role)
=============================================================================
