SPECIFICATION Spec
CONSTANTS
  MaxLen = 3
  Bug = "none"
INVARIANT UniversalHolds
INVARIANT ForcedHolds
INVARIANT Idempotent
INVARIANT RelationConsistent
