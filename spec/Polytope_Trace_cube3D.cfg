SPECIFICATION TraceSpec
CONSTANTS
  Kind = "cube3D"
  MaxLevel = 9
  Bug = "none"
INVARIANT NodesAreLattice
POSTCONDITION AllConsumed
