SPECIFICATION Spec
CONSTANT NN = 5
INVARIANT SecondIsDistanceTwo
INVARIANT ThirdIsDistanceThree
INVARIANT DistancesNeverGrow
