SPECIFICATION Spec
CONSTANTS
  Keys <- KeySet
  Vals = {1, 2}
  MaxLines = 3
  RequirePrefixFree = TRUE
INVARIANT ReadYourWrite
INVARIANT ReadIsMapLookup
INVARIANT NoDuplicateKeys
PROPERTY ModifyTouchesOneKey
CHECK_DEADLOCK FALSE
