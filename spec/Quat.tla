-------------------------------- MODULE Quat --------------------------------
(***************************************************************************)
(* Growth G04.  Quaternion bookkeeping of molgri.space.utils / rotations / *)
(* rotobj on an EXACT carrier: the 24 Hurwitz units in doubled integer     *)
(* coordinates <<X, Y, Z, W>> = 2 (x, y, z, w), scalar LAST as scipy's     *)
(* Rotation.from_quat reads them; X^2+Y^2+Z^2+W^2 = 4.  Their rotation     *)
(* matrices are the 12 proper rotations of the tetrahedron and have        *)
(* integer entries, so every conversion is decided exactly.                *)
(*                                                                         *)
(* The state machine is the life of a rotation grid as rotobj builds it:   *)
(*   raw rows  --Canonicalise-->  half grid  --DoubleCover-->  full grid   *)
(* (hemisphere_quaternion_set, SphereGrid4Dim._gen_grid).                  *)
(***************************************************************************)
EXTENDS Integers, Sequences, FiniteSets, TLC

CONSTANTS MaxRows, Bug       \* Bug: "none" | "lastCoordinate" | "dedupe" | "coverInterleaved"

Co == {-2, -1, 0, 1, 2}
Q24 == {q \in Co \X Co \X Co \X Co : q[1] * q[1] + q[2] * q[2] + q[3] * q[3] + q[4] * q[4] = 4}
Neg(q) == <<-q[1], -q[2], -q[3], -q[4]>>
Dot(p, q) == p[1] * q[1] + p[2] * q[2] + p[3] * q[3] + p[4] * q[4]

(* first non-zero coordinate positive; the zero vector is in the bottom half *)
RECURSIVE UpperFrom(_, _)
UpperFrom(q, i) == IF i > Len(q) THEN FALSE ELSE IF q[i] > 0 THEN TRUE ELSE IF q[i] < 0 THEN FALSE ELSE UpperFrom(q, i + 1)
Upper(q) == UpperFrom(q, 1)
Upper4(q) == \/ q[1] > 0 \/ (q[1] = 0 /\ q[2] > 0) \/ (q[1] = 0 /\ q[2] = 0 /\ q[3] > 0)          \* unrolled; proofs/QuatProof.tla
             \/ (q[1] = 0 /\ q[2] = 0 /\ q[3] = 0 /\ q[4] > 0)
Canon(q) == IF Upper(q) THEN q ELSE Neg(q)
Lower(q) == IF Upper(q) THEN Neg(q) ELSE q
SameRot(p, q) == p = q \/ p = Neg(q)

(* hemisphere_quaternion_set: row-wise, order and length preserved (no de-duplication despite the variable name) *)
Hemi(rows, upper) == [i \in 1 .. Len(rows) |-> IF upper THEN Canon(rows[i]) ELSE Lower(rows[i])]
(* two_sets_of_quaternions_equal / quaternion_in_array *)
SetsEqual(a, b) == Len(a) = Len(b) /\ \A i \in 1 .. Len(a) : SameRot(a[i], b[i])
InArray(q, arr) == \E i \in 1 .. Len(arr) : SameRot(q, arr[i])
(* distance_between_quaternions in units of pi/6: |cos| = |Dot|/4 in {1, 1/2, 0} *)
AbsI(a) == IF a < 0 THEN -a ELSE a
Dist6(p, q) == CASE AbsI(Dot(p, q)) = 4 -> 0 [] AbsI(Dot(p, q)) = 2 -> 2 [] AbsI(Dot(p, q)) = 0 -> 3 [] OTHER -> -1

(* Hamilton product (scalar last), doubled coordinates: (p q) doubled = formula / 2 *)
Mul(p, q) ==
  LET x1 == p[1] y1 == p[2] z1 == p[3] w1 == p[4]
      x2 == q[1] y2 == q[2] z2 == q[3] w2 == q[4]
  IN << (w1 * x2 + x1 * w2 + y1 * z2 - z1 * y2) \div 2,
        (w1 * y2 - x1 * z2 + y1 * w2 + z1 * x2) \div 2,
        (w1 * z2 + x1 * y2 - y1 * x2 + z1 * w2) \div 2,
        (w1 * w2 - x1 * x2 - y1 * y2 - z1 * z2) \div 2 >>
One == <<0, 0, 0, 2>>
Conj(q) == <<-q[1], -q[2], -q[3], q[4]>>

(* rotation matrix (rows) of a unit quaternion, scalar last; all entries are integers on Q24 *)
Rot(q) ==
  LET X == q[1] Y == q[2] Z == q[3] W == q[4]
  IN << << 1 - (Y * Y + Z * Z) \div 2, (X * Y - Z * W) \div 2, (X * Z + Y * W) \div 2 >>,
        << (X * Y + Z * W) \div 2, 1 - (X * X + Z * Z) \div 2, (Y * Z - X * W) \div 2 >>,
        << (X * Z - Y * W) \div 2, (Y * Z + X * W) \div 2, 1 - (X * X + Y * Y) \div 2 >> >>
MatMul(A, B) == [i \in 1 .. 3 |-> [j \in 1 .. 3 |-> A[i][1] * B[1][j] + A[i][2] * B[2][j] + A[i][3] * B[3][j]]]
Id3 == <<<<1, 0, 0>>, <<0, 1, 0>>, <<0, 0, 1>>>>
Transpose(A) == [i \in 1 .. 3 |-> [j \in 1 .. 3 |-> A[j][i]]]
Det(A) == A[1][1] * (A[2][2] * A[3][3] - A[2][3] * A[3][2]) - A[1][2] * (A[2][1] * A[3][3] - A[2][3] * A[3][1])
          + A[1][3] * (A[2][1] * A[3][2] - A[2][2] * A[3][1])
Apply(A, v) == [i \in 1 .. 3 |-> A[i][1] * v[1] + A[i][2] * v[2] + A[i][3] * v[3]]
(* rotation2grid: the images of the three basis vectors = the columns of the matrix *)
GridOf(q) == Transpose(Rot(q))       \* <<grid_x, grid_y, grid_z>>
(* grid2rotation: the matrix whose columns are the three grid vectors *)
RotOfGrid(g) == Transpose(g)

(* two_vectors2rot on axis vectors: I + K + K^2 with K = skew(x cross y); identity for x = y; for x = -y the code
   returns MINUS identity - a point reflection, not a rotation (named deviation of the code, modelled as it is) *)
Axes == {<<1, 0, 0>>, <<-1, 0, 0>>, <<0, 1, 0>>, <<0, -1, 0>>, <<0, 0, 1>>, <<0, 0, -1>>}
Cross(a, b) == <<a[2] * b[3] - a[3] * b[2], a[3] * b[1] - a[1] * b[3], a[1] * b[2] - a[2] * b[1]>>
Skew(v) == <<<<0, -v[3], v[2]>>, <<v[3], 0, -v[1]>>, <<-v[2], v[1], 0>>>>
MatAdd(A, B) == [i \in 1 .. 3 |-> [j \in 1 .. 3 |-> A[i][j] + B[i][j]]]
MinusId3 == <<<<-1, 0, 0>>, <<0, -1, 0>>, <<0, 0, -1>>>>
TwoVec(x, y) == IF x = y THEN Id3
                ELSE IF x = <<-y[1], -y[2], -y[3]>> THEN MinusId3
                ELSE LET K == Skew(Cross(x, y)) IN MatAdd(MatAdd(Id3, K), MatMul(K, K))

(* points4D_2_8cells: index lists; cell c < 4: coordinate c negative, cell c+4: coordinate c >= 0 *)
Cells8(rows) == [c \in 1 .. 8 |-> LET k == IF c <= 4 THEN c ELSE c - 4
                                 IN {i \in 1 .. Len(rows) : IF c <= 4 THEN rows[i][k] < 0 ELSE rows[i][k] >= 0}]

(* ---- algebra, checked on all of Q24 at the initial state ---- *)
Algebra ==
  /\ Cardinality(Q24) = 24
  /\ \A q \in Q24 : Upper(q) = Upper4(q)                                \* the recursive definition is the unrolled one (UpperIsUnrolled)
  /\ \A q \in Q24 : Upper(q) # Upper(Neg(q))                             \* exactly one of q, -q is canonical
  /\ \A q \in Q24 : Upper(Canon(q)) /\ SameRot(q, Canon(q)) /\ ~Upper(Lower(q))
  /\ Cardinality({Canon(q) : q \in Q24}) = 12
  /\ \A q \in Q24 : Rot(q) = Rot(Neg(q))                                 \* q and -q: the same rotation
  /\ \A p, q \in Q24 : (Rot(p) = Rot(q)) <=> SameRot(p, q)               \* and nothing else
  /\ \A q \in Q24 : MatMul(Rot(q), Transpose(Rot(q))) = Id3 /\ Det(Rot(q)) = 1
  /\ \A p, q \in Q24 : Mul(p, q) \in Q24 /\ Rot(Mul(p, q)) = MatMul(Rot(p), Rot(q))
  /\ \A q \in Q24 : Mul(q, Conj(q)) = One /\ Rot(Conj(q)) = Transpose(Rot(q))
  /\ \A q \in Q24 : RotOfGrid(GridOf(q)) = Rot(q)                        \* grid2rotation o rotation2grid = id
  /\ \A p, q \in Q24 : Dist6(p, q) \in {0, 2, 3} /\ Dist6(p, q) = Dist6(Neg(p), q) /\ (Dist6(p, q) = 0 <=> SameRot(p, q))
  /\ \A p, q, r \in Q24 : Dist6(p, r) <= Dist6(p, q) + Dist6(q, r)       \* a metric on rotations
  /\ \A x, y \in Axes : Apply(TwoVec(x, y), x) = y /\ MatMul(TwoVec(x, y), Transpose(TwoVec(x, y))) = Id3
  /\ \A x, y \in Axes : (Det(TwoVec(x, y)) = 1) <=> (x # <<-y[1], -y[2], -y[3]>>)    \* the deviation, exactly there

(* ---- the grid life cycle ---- *)
VARIABLES rows, phase, nHalf
vars == <<rows, phase, nHalf>>

Init == rows = <<>> /\ phase = "raw" /\ nHalf = 0 /\ Assert(Algebra, "quaternion algebra")
AddRow(q) == phase = "raw" /\ Len(rows) < MaxRows /\ rows' = Append(rows, q) /\ UNCHANGED <<phase, nHalf>>
CanonRow(q) == IF Bug = "lastCoordinate" THEN (IF q[4] > 0 \/ (q[4] = 0 /\ Upper(q)) THEN q ELSE Neg(q)) ELSE Canon(q)
RECURSIVE Dedupe(_)
Dedupe(s) == IF s = <<>> THEN <<>> ELSE LET t == Dedupe(Tail(s)) IN IF \E i \in 1 .. Len(t) : t[i] = Head(s) THEN t ELSE <<Head(s)>> \o t
Canonicalise == /\ phase = "raw" /\ Len(rows) > 0
                /\ LET h == [i \in 1 .. Len(rows) |-> CanonRow(rows[i])] IN rows' = IF Bug = "dedupe" THEN Dedupe(h) ELSE h
                /\ phase' = "half" /\ nHalf' = Len(rows)
DoubleCover == /\ phase = "half"
               /\ rows' = IF Bug = "coverInterleaved"
                          THEN [i \in 1 .. 2 * Len(rows) |-> IF i % 2 = 1 THEN rows[(i + 1) \div 2] ELSE Neg(rows[i \div 2])]
                          ELSE rows \o [i \in 1 .. Len(rows) |-> Neg(rows[i])]
               /\ phase' = "full" /\ UNCHANGED nHalf
Next == (\E q \in Q24 : AddRow(q)) \/ Canonicalise \/ DoubleCover
Spec == Init /\ [][Next]_vars

TypeOK == phase \in {"raw", "half", "full"} /\ \A i \in 1 .. Len(rows) : rows[i] \in Q24
HalfIsCanonical == phase = "half" => (Len(rows) = nHalf /\ \A i \in 1 .. Len(rows) : Upper(rows[i]))
FullIsHalfThenNegatives ==
  phase = "full" => /\ Len(rows) = 2 * nHalf
                    /\ \A i \in 1 .. nHalf : Upper(rows[i]) /\ rows[nHalf + i] = Neg(rows[i])
(* canonicalising is invisible to rotations: row i of the half grid is the same rotation as raw row i *)
CanonicalisePreservesRotations ==
  [][Canonicalise => (Len(rows') = Len(rows) /\ \A i \in 1 .. Len(rows) : SameRot(rows[i], rows'[i]))]_vars
(* the 8-cell split used for plotting is a cover: every row lands in exactly 4 of the 8 cells *)
EightCellsCover == \A i \in 1 .. Len(rows) : Cardinality({c \in 1 .. 8 : i \in Cells8(rows)[c]}) = 4
=============================================================================
