SPECIFICATION Spec
CONSTANTS
  Arts = {"array", "volumes", "borders"}
  Digests = {1, 2}
  Bug = "none"
PROPERTY ReadIsWrite
PROPERTY WriteIsLocal
CONSTRAINT Bounded
