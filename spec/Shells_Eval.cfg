
