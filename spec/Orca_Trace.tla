----------------------------- MODULE Orca_Trace -----------------------------
(***************************************************************************)
(* Growth G09, code -> spec.  One record per collection run:               *)
(*  [tid, files <<<<[kind, v]>>>> (the .out files as written, in frame     *)
(*   order; v in micro-hartree, 0 = none), table <<v>> (the csv's energy   *)
(*   column read back through EnergyReader, micro-hartree, 0 = NaN),       *)
(*   kj9 (max relative deviation of the kJ/mol column from hartree x       *)
(*   2625.4996..., 1e-9), names_ok (the index column lists the files in    *)
(*   list order), inp_ok (make_inp_file text = the declared layout), err]  *)
(***************************************************************************)
EXTENDS Integers, Sequences, FiniteSets, TLC, Json, IOUtils

O == INSTANCE Orca WITH Vals <- {}, MaxLines <- 0, MaxFiles <- 0, Bug <- "none", files <- <<>>, table <- <<>>
Log == JsonDeserialize(IOEnv.TRACE_FILE)
VARIABLE l
Rec == Log[l]
AsFile(s) == [i \in 1 .. Len(s) |-> [kind |-> s[i].kind, v |-> s[i].v]]

Clause(r) ==
  LET fs == [k \in 1 .. Len(r.files) |-> AsFile(r.files[k])]
  IN IF r.err # "" THEN "exception:" \o r.err
     ELSE IF Len(r.table) # Len(fs) THEN "the energy table does not have one row per frame file"
     ELSE IF \E k \in 1 .. Len(fs) : r.table[k] # O!EnergyOf(fs[k]) THEN "a row is not the last FINAL SINGLE POINT ENERGY of the frame file of the same index"
     ELSE IF r.table # O!Collect(fs) THEN "MACHINERY: operational and declarative model disagree"
     ELSE IF ~r.names_ok THEN "the file column is not the list of frame files in order"
     ELSE IF r.kj9 > 1000 THEN "the kJ/mol column is not hartree x N_A x E_h / 1000"
     ELSE IF ~r.inp_ok THEN "the ORCA input text is not the declared layout"
     ELSE "ok"

Init == l = 1 /\ TLCSet(1, 0)
Step == /\ l <= Len(Log)
        /\ LET c == Clause(Rec) IN IF c = "ok" THEN TRUE ELSE PrintT(<<"REJECT", Rec.tid, c, 0>>)
        /\ TLCSet(1, l)
        /\ l' = l + 1
Spec == Init /\ [][Step]_l
AllConsumed == TLCGet(1) = Len(Log)
=============================================================================
