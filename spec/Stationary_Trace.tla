--------------------------- MODULE Stationary_Trace ---------------------------
(***************************************************************************)
(* Growth G02 (workflow run_msm): assignments -> MSM -> DecompositionTool.  *)
(* One record per trajectory:                                               *)
(*  [tid, x, tau, m, visited <<cells with r_i > 0>>, connected,             *)
(*   lam1_9 (|largest eigenvalue - 1| in 1e-9), imag9, spread6 (relative    *)
(*   spread of v_i / r_i over the visited cells, 1e-6), zero9 (largest      *)
(*   |v_i| over unvisited cells relative to max |v|, 1e-9), err]            *)
(* The row totals r_i are recomputed by the spec from the trajectory        *)
(* (MsmOps) and compared with the driver's `rows`.                          *)
(***************************************************************************)
EXTENDS Integers, Sequences, FiniteSets, TLC, Json, IOUtils
O == INSTANCE MsmOps
Log == JsonDeserialize(IOEnv.TRACE_FILE)
VARIABLE l
Rec == Log[l]
Clause(r) ==
  LET tot == TLCEval(O!RowTotals(r.x, r.tau, FALSE, r.m)) IN
  IF r.err # "" THEN "exception:" \o r.err
  ELSE IF r.rows # [i \in 1 .. r.m |-> tot[i - 1]] THEN "HARNESS: row totals"
  ELSE IF ~r.connected THEN "ok"
  ELSE IF r.lam1_9 > 1000 THEN "largest eigenvalue of the transition matrix is not 1"
  ELSE IF r.imag9 > 1000 THEN "leading eigenpair is not real"
  ELSE IF r.spread6 > 10 THEN "leading left eigenvector is not proportional to the visit counts"
  ELSE IF r.zero9 > 1000 THEN "unvisited cells carry stationary weight"
  ELSE "ok"
Init == l = 1 /\ TLCSet(1, 0)
Step == /\ l <= Len(Log)
        /\ LET c == Clause(Rec) IN IF c = "ok" THEN TRUE ELSE PrintT(<<"REJECT", Rec.tid, c, 0>>)
        /\ TLCSet(1, l) /\ l' = l + 1
Spec == Init /\ [][Step]_l
AllConsumed == TLCGet(1) = Len(Log)
=============================================================================
