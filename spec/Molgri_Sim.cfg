SPECIFICATION SimSpec
CONSTANTS
  Specs = {1, 2}
  Bug = "none"
  Period = 9
INVARIANT OneCellOrder
INVARIANT DirectoriesArePure
INVARIANT MemoryIsCurrent
INVARIANT ReadIsWriteAndRateConsistent
CHECK_DEADLOCK FALSE
