SPECIFICATION Spec
POSTCONDITION AllConsumed
