SPECIFICATION Spec
CONSTANTS
  N = 4
  MatKind = "generic"
  MaxJ = 2
  MaxLen = 4
  MaxD = 2
  Bug = "none"
INVARIANT TypeOK
INVARIANT Disjoint
INVARIANT ListCanonical
INVARIANT ZeroRowSumKept
INVARIANT SymmetryKept
INVARIANT ExactLumping
INVARIANT OneShotIsStepwise
INVARIANT ReadingsAgreeOnPresent
INVARIANT MergeKeepsCells
PROPERTY CellsOnlyShrink
PROPERTY GroupsOnlyCoarsen
