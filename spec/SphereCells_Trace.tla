-------------------------- MODULE SphereCells_Trace --------------------------
(***************************************************************************)
(* C03, code -> spec.  One record per direction grid (algorithm, N):       *)
(*  [tid, n, inc <<[v,c]>>, geo <<[i,j,arcId,angId,arc8]>> (oracle, i<j,   *)
(*   pairs sharing >= 2 vertices), areaIds, areaSum8,                      *)
(*   adj <<[i,j]>>, borders <<[i,j,id]>>, dists <<[i,j,id]>>, areas <<id>>,*)
(*   areasPositive, err]                                                   *)
(* ids are value classes (relative 1e-9) shared by oracle and code values. *)
(***************************************************************************)
EXTENDS Integers, Sequences, FiniteSets, TLC, Json, IOUtils

S == INSTANCE SphereCells WITH inc <- {}, ncells <- 0
Log == JsonDeserialize(IOEnv.TRACE_FILE)
VARIABLE l
Rec == Log[l]
ToSet(s) == {s[i] : i \in 1 .. Len(s)}
Abs(x) == IF x < 0 THEN -x ELSE x
FourPi8 == 1256637061

Clause(r) ==
  LET Inc == TLCEval({<<p[1], p[2]>> : p \in ToSet(r.inc)})
      A == TLCEval(S!AdjPairs(Inc, r.n))
      geo == TLCEval(ToSet(r.geo))
      tiny == {<<g[1], g[2]>> : g \in {x \in geo : x[5] <= 10}}           \* shared arc shorter than 1e-7 rad: unconstrained
      tinyS == tiny \cup {<<p[2], p[1]>> : p \in tiny}
      codeAdj == {<<p[1], p[2]>> : p \in ToSet(r.adj)}
      bPat == {<<p[1], p[2]>> : p \in ToSet(r.borders)}
      dPat == {<<p[1], p[2]>> : p \in ToSet(r.dists)}
      arcOf == [p \in {<<g[1], g[2]>> : g \in geo} |-> (CHOOSE g \in geo : g[1] = p[1] /\ g[2] = p[2])[3]]
      angOf == [p \in {<<g[1], g[2]>> : g \in geo} |-> (CHOOSE g \in geo : g[1] = p[1] /\ g[2] = p[2])[4]]
      ord(p) == IF p[1] < p[2] THEN p ELSE <<p[2], p[1]>>
  IN IF r.err # "" THEN "exception:" \o r.err
     ELSE IF ~S!EveryVertexHasThreeCells(Inc) \/ ~S!Euler(Inc, r.n) \/ Abs(r.areaSum8 - FourPi8) > 3
          THEN "ORACLE self-check failed"
     ELSE IF \E p \in codeAdj : p[1] = p[2] THEN "diagonal entry"
     ELSE IF \E p \in codeAdj : <<p[2], p[1]>> \notin codeAdj THEN "adjacency not symmetric"
     ELSE IF (codeAdj \ tinyS) # (A \ tinyS) THEN "adjacency is not 'cells share an arc'"
     ELSE IF bPat # codeAdj \/ dPat # codeAdj THEN "the three matrices differ in pattern"
     ELSE IF \E b \in ToSet(r.borders) : <<b[1], b[2]>> \notin tinyS /\ b[3] # arcOf[ord(<<b[1], b[2]>>)] THEN "border is not the shared arc length"
     ELSE IF \E d \in ToSet(r.dists) : <<d[1], d[2]>> \notin tinyS /\ d[3] # angOf[ord(<<d[1], d[2]>>)] THEN "distance is not the great-circle angle"
     ELSE IF r.areas # r.areaIds THEN "cell area"
     ELSE IF ~r.areasPositive THEN "non-positive area"
     ELSE "ok"

Init == l = 1 /\ TLCSet(1, 0)
Step == /\ l <= Len(Log)
        /\ LET c == Clause(Rec) IN IF c = "ok" THEN TRUE ELSE PrintT(<<"REJECT", Rec.tid, c, 0>>)
        /\ TLCSet(1, l)
        /\ l' = l + 1
Spec == Init /\ [][Step]_l
AllConsumed == TLCGet(1) = Len(Log)
=============================================================================
