------------------------------- MODULE PolyOps -------------------------------
(***************************************************************************)
(* C18 (also used by C07, C08).  Exact lattice model of the three          *)
(* polytopes.  A scalar is a pair <<a, b>> standing for a + b*phi (golden  *)
(* ratio); cube and hypercube use b = 0.  A point is a tuple of d scalars. *)
(* At subdivision level k coordinates are expressed in units of            *)
(* (side/2)/2^k, so that                                                   *)
(*   - the vertices of the cube / hypercube are (+-M, ..., +-M), M = 2^k,  *)
(*     lattice neighbours differ by 2 in some coordinates,                 *)
(*   - the icosahedron's level-0 vertices are (+-1, +-phi, 0) cyclically,  *)
(*   - the midpoint of two level-k points u, v is u + v in level-(k+1)     *)
(*     units and an old point u becomes 2u.                                *)
(***************************************************************************)
EXTENDS Integers, Sequences, FiniteSets, TLC

RECURSIVE Pow2(_)
Pow2(k) == IF k = 0 THEN 1 ELSE 2 * Pow2(k - 1)

Dim(kind) == IF kind = "cube4D" THEN 4 ELSE 3

S(a) == <<a, 0>>
SAdd(s, t) == <<s[1] + t[1], s[2] + t[2]>>
SMul(c, s) == <<c * s[1], c * s[2]>>
Add(u, v) == [i \in DOMAIN u |-> SAdd(u[i], v[i])]
Mul(c, u) == [i \in DOMAIN u |-> SMul(c, u[i])]
Neg(u) == Mul(-1, u)
Zero == <<0, 0>>

(* ------------------------------ cube / hypercube ------------------------------ *)
Coords(k) == {-Pow2(k) + 2 * i : i \in 0 .. Pow2(k)}
CubeLattice(d, k) ==
  {[i \in 1 .. d |-> S(p[i])] : p \in {q \in [1 .. d -> Coords(k)] : \E i \in 1 .. d : q[i] = Pow2(k) \/ q[i] = -Pow2(k)}}

OnFacet(u, i, sgn, k) == u[i] = S(sgn * Pow2(k))
SharedFacet(u, v, d, k) == \E i \in 1 .. d, sgn \in {-1, 1} : OnFacet(u, i, sgn, k) /\ OnFacet(v, i, sgn, k)
Steps(d) == {[i \in 1 .. d |-> S(p[i])] : p \in [1 .. d -> {-2, 0, 2}]} \ {[i \in 1 .. d |-> Zero]}
CubeEdges(d, k) ==
  LET L == CubeLattice(d, k)
      Cand == {<<u, st>> \in L \X Steps(d) : Add(u, st) \in L /\ SharedFacet(u, Add(u, st), d, k)}
  IN {{c[1], Add(c[1], c[2])} : c \in Cand}

(* ------------------------------- icosahedron ---------------------------------- *)
One == <<1, 0>>
Phi == <<0, 1>>
MOne == <<-1, 0>>
MPhi == <<0, -1>>
IcoV == << <<MOne, Phi, Zero>>, <<One, Phi, Zero>>, <<MOne, MPhi, Zero>>, <<One, MPhi, Zero>>,
           <<Zero, MOne, Phi>>, <<Zero, One, Phi>>, <<Zero, MOne, MPhi>>, <<Zero, One, MPhi>>,
           <<Phi, Zero, MOne>>, <<Phi, Zero, One>>, <<MPhi, Zero, MOne>>, <<MPhi, Zero, One>> >>   \* index 0..11 -> IcoV[i+1]
IcoFaces == { <<0, 11, 5>>, <<0, 5, 1>>, <<0, 1, 7>>, <<0, 7, 10>>, <<0, 10, 11>>, <<1, 5, 9>>, <<5, 11, 4>>,
              <<11, 10, 2>>, <<10, 7, 6>>, <<7, 1, 8>>, <<3, 9, 4>>, <<3, 4, 2>>, <<3, 2, 6>>, <<3, 6, 8>>,
              <<3, 8, 9>>, <<4, 9, 5>>, <<2, 4, 11>>, <<6, 2, 10>>, <<8, 6, 7>>, <<9, 8, 1>> }
Bary(f, i, j, l) == Add(Add(Mul(i, IcoV[f[1] + 1]), Mul(j, IcoV[f[2] + 1])), Mul(l, IcoV[f[3] + 1]))
FaceIdx(m) == {t \in (0 .. m) \X (0 .. m) : t[1] + t[2] <= m}
P(f, m, i, j) == Bary(f, i, j, m - i - j)
IcoLattice(k) == LET m == Pow2(k) IN {P(c[1], m, c[2][1], c[2][2]) : c \in IcoFaces \X FaceIdx(m)}
FaceEdges(f, m) ==
  {{P(f, m, t[1], t[2]), P(f, m, t[1] - 1, t[2] + 1)} : t \in {x \in FaceIdx(m) : x[1] >= 1}} \cup
  {{P(f, m, t[1], t[2]), P(f, m, t[1] - 1, t[2])} : t \in {x \in FaceIdx(m) : x[1] >= 1}} \cup
  {{P(f, m, t[1], t[2]), P(f, m, t[1], t[2] - 1)} : t \in {x \in FaceIdx(m) : x[2] >= 1}}
IcoEdges(k) == UNION {FaceEdges(f, Pow2(k)) : f \in IcoFaces}

Lattice(kind, k) == IF kind = "ico" THEN IcoLattice(k) ELSE CubeLattice(Dim(kind), k)
UnitEdges(kind, k) == IF kind = "ico" THEN IcoEdges(k) ELSE CubeEdges(Dim(kind), k)

NodeCount(kind, k) == LET m == Pow2(k) IN
  CASE kind = "cube3D" -> 6 * m * m + 2
    [] kind = "cube4D" -> (m + 1) * (m + 1) * (m + 1) * (m + 1) - (m - 1) * (m - 1) * (m - 1) * (m - 1)
    [] kind = "ico" -> 10 * m * m + 2
EdgeCount(kind, k) == LET m == Pow2(k) IN
  CASE kind = "cube3D" -> 24 * m * m
    [] kind = "ico" -> 30 * m * m
    [] kind = "cube4D" -> Cardinality(UnitEdges(kind, k))

(* first non-zero coordinate positive (cube / hypercube scalars have b = 0) *)
RECURSIVE CanonFrom(_, _)
CanonFrom(u, i) == IF i > Len(u) THEN FALSE
                   ELSE IF u[i][1] > 0 THEN TRUE ELSE IF u[i][1] < 0 THEN FALSE ELSE CanonFrom(u, i + 1)
Canonical(u) == CanonFrom(u, 1)
=============================================================================
