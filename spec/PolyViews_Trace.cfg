SPECIFICATION Spec
POSTCONDITION AllConsumed
