------------------------------ MODULE FullViews ------------------------------
(***************************************************************************)
(* Growth G14.  The SIZE VIEWS of one full-grid object.  A FullGrid is     *)
(* built from three component grids (nB rotations, nO directions, nT       *)
(* radii); its accessors - some defined on FullGrid, some forwarded to the *)
(* PositionGrid through __getattr__, some on the component grids, one in   *)
(* the workflow's parameter file reader - are projections of that one      *)
(* triple.  The model is a history of Ask(view) steps on one object, every *)
(* view at most once, in ANY order (the object memoises, so the order is   *)
(* part of the state); the invariant is that whatever has been answered so *)
(* far fits ONE triple:                                                    *)
(*   len = bN * oN * tN,  posLen = oN * tN,  rows = volumes = len, ...     *)
(* Negative configurations (Bug): the length of the full grid forwarded to *)
(* the position grid; a view that answers with the size of whatever was    *)
(* asked before it (memo under a shared key).                              *)
(***************************************************************************)
EXTENDS Integers, Sequences, FiniteSets, TLC

AllViews == {"len", "bN", "oN", "tN", "posLen", "radii", "between", "volumes", "rows", "posRows",
             "bodyRot", "upperB", "tgrid", "ogrid", "posVol", "adjB", "yamlO", "yamlB", "yamlT"}

(* what a view answers for the triple (b, o, t) *)
View(v, b, o, t) ==
  CASE v \in {"len", "volumes", "rows"}                 -> b * o * t
    [] v \in {"posLen", "posRows", "posVol"}            -> o * t
    [] v \in {"bN", "bodyRot", "upperB", "adjB", "yamlB"} -> b
    [] v \in {"oN", "ogrid", "yamlO"}                   -> o
    [] v \in {"tN", "radii", "between", "tgrid", "yamlT"} -> t

CONSTANTS MaxB, MaxO, MaxT, Views, Bug

VARIABLES nB, nO, nT, asked, ans
vars == <<nB, nO, nT, asked, ans>>

Init == /\ nB \in 1 .. MaxB /\ nO \in 1 .. MaxO /\ nT \in 1 .. MaxT
        /\ asked = <<>> /\ ans = [v \in {} |-> 0]

Answer(v) ==
  IF Bug = "lenForwarded" /\ v = "len" THEN nO * nT
  ELSE IF Bug = "sharedMemo" /\ v = "posRows" /\ asked # <<>> /\ asked[Len(asked)] = "rows" THEN ans["rows"]
  ELSE View(v, nB, nO, nT)

Ask(v) == /\ v \notin DOMAIN ans
          /\ asked' = Append(asked, v)
          /\ ans' = [w \in DOMAIN ans \cup {v} |-> IF w = v THEN Answer(v) ELSE ans[w]]
          /\ UNCHANGED <<nB, nO, nT>>
Next == \E v \in Views : Ask(v)
Spec == Init /\ [][Next]_vars

Has(v) == v \in DOMAIN ans
(* the answers so far fit one triple: every relation between answered views *)
OneTriple ==
  /\ (Has("len") /\ Has("bN") /\ Has("posLen")) => ans["len"] = ans["bN"] * ans["posLen"]
  /\ (Has("posLen") /\ Has("oN") /\ Has("tN")) => ans["posLen"] = ans["oN"] * ans["tN"]
  /\ (Has("len") /\ Has("bN") /\ Has("oN") /\ Has("tN")) => ans["len"] = ans["bN"] * ans["oN"] * ans["tN"]
  /\ (Has("len") /\ Has("rows")) => ans["len"] = ans["rows"]
  /\ (Has("posLen") /\ Has("posRows")) => ans["posLen"] = ans["posRows"]
  /\ (Has("rows") /\ Has("posRows") /\ Has("bN")) => ans["rows"] = ans["posRows"] * ans["bN"]
(* declaratively: every answer is the projection of the triple the object was built from *)
AnswersAreProjections == \A v \in DOMAIN ans : ans[v] = View(v, nB, nO, nT)
(* asking is read-only: an answer never changes afterwards *)
AnswersAreStable == [][\A v \in DOMAIN ans : ans'[v] = ans[v]]_vars
=============================================================================
