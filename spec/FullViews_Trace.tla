--------------------------- MODULE FullViews_Trace ---------------------------
(***************************************************************************)
(* Growth G14, code -> spec.  One history per tid on ONE real FullGrid     *)
(* object; one record per accessor call, logged after the call:            *)
(*  [tid, op ("new" | "ask"), b, o, t (the sizes the object was REQUESTED  *)
(*   with, on "new"), v (view name), val (the answer, -1 = exception),     *)
(*   err]                                                                  *)
(* "new" takes the model's Init for the requested triple; every "ask"      *)
(* takes the model's Ask(v) from the state the previous records left (the  *)
(* answers given so far) - a view asked again must answer what it answered *)
(* before (AnswersAreStable) and every answer must be the projection of    *)
(* the requested triple and fit all earlier answers (OneTriple).           *)
(***************************************************************************)
EXTENDS Integers, Sequences, FiniteSets, TLC, Json, IOUtils

VARIABLES l, nB, nO, nT, ans
V == INSTANCE FullViews WITH MaxB <- 0, MaxO <- 0, MaxT <- 0, Views <- {}, Bug <- "none", asked <- <<>>
VA(a) == INSTANCE FullViews WITH MaxB <- 0, MaxO <- 0, MaxT <- 0, Views <- {}, Bug <- "none", asked <- <<>>, ans <- a
With(r) == [w \in DOMAIN ans \cup {r.v} |-> IF w = r.v THEN r.val ELSE ans[w]]
Log == JsonDeserialize(IOEnv.TRACE_FILE)
Rec == Log[l]

AskClause(r) ==
  IF r.err # "" THEN "exception:" \o r.err
  ELSE IF r.v \notin V!AllViews THEN "MACHINERY: unknown view"
  ELSE IF r.v \in DOMAIN ans /\ ans[r.v] # r.val THEN "a view answered differently when asked again (" \o r.v \o ")"
  ELSE IF ~VA(With(r))!OneTriple THEN "the size views answered so far do not fit one (rotations, directions, radii) triple (" \o r.v \o ")"
  ELSE IF r.val # V!View(r.v, nB, nO, nT) THEN "a size view is not the projection of the requested (rotations, directions, radii) triple (" \o r.v \o ")"
  ELSE "ok"

Init == l = 1 /\ nB = 0 /\ nO = 0 /\ nT = 0 /\ ans = [v \in {} |-> 0] /\ TLCSet(1, 0)
Step == /\ l <= Len(Log)
        /\ IF Rec.op = "new"
           THEN /\ nB' = Rec.b /\ nO' = Rec.o /\ nT' = Rec.t /\ ans' = [v \in {} |-> 0]
                /\ (IF Rec.err = "" THEN TRUE ELSE PrintT(<<"REJECT", Rec.tid, "exception:" \o Rec.err, l>>))
           ELSE /\ LET c == AskClause(Rec) IN IF c = "ok" THEN TRUE ELSE PrintT(<<"REJECT", Rec.tid, c, l>>)
                /\ ans' = IF Rec.err = "" THEN With(Rec) ELSE ans
                /\ UNCHANGED <<nB, nO, nT>>
        /\ TLCSet(1, l)
        /\ l' = l + 1
Spec == Init /\ [][Step]_<<l, nB, nO, nT, ans>>
AllConsumed == TLCGet(1) = Len(Log)
=============================================================================
