---------------------------- MODULE GridNameOps ----------------------------
(***************************************************************************)
(* C17.  The language of grid names.  A name is a sequence of tokens       *)
(* (joined by "_" in the implementation); a role is "o" (directions, 3D)   *)
(* or "b" (rotations, 4D).  An outcome is                                  *)
(*    [kind |-> "ValueError"]   [kind |-> "OtherError", cls |-> ...]       *)
(*    [kind |-> "Std", alg |-> ..., n |-> ...]                             *)
(* The specification is a RELATION between names and outcomes: Universal   *)
(* must hold for every name, Forced pins the outcome on the classes of     *)
(* names the property statement determines; everything else is free.       *)
(***************************************************************************)
EXTENDS Integers, Sequences, FiniteSets

Alg3 == {"ico", "cube3D", "randomS"}
Alg4 == {"cube4D", "randomQ", "fulldiv"}
Zero3 == "zero3D"
Zero4 == "zero4D"
AllAlgs == Alg3 \cup Alg4 \cup {Zero3, Zero4}

NumTokens == {"0", "1", "2", "7", "15", "007"}
NumVal(t) == CASE t = "0" -> 0 [] t = "1" -> 1 [] t = "2" -> 2 [] t = "7" -> 7 [] t = "15" -> 15 [] t = "007" -> 7
OtherTokens == {"zero", "-5", "none", "None", "junk"}
Tokens == AllAlgs \cup NumTokens \cup OtherTokens
ContainsZero(t) == t \in {Zero3, Zero4, "zero"}       \* the substring test of the implementation

Roles == {"o", "b"}
ValidAlgs(role) == IF role = "o" THEN Alg3 \cup {Zero3} ELSE Alg4 \cup {Zero4}
NonZeroAlgs(role) == IF role = "o" THEN Alg3 ELSE Alg4
ZeroAlg(role) == IF role = "o" THEN Zero3 ELSE Zero4
DefaultAlg(role) == IF role = "o" THEN "ico" ELSE "cube4D"

VE == [kind |-> "ValueError"]
Std(a, k) == [kind |-> "Std", alg |-> a, n |-> k]

Idx(name) == 1 .. Len(name)
Nums(name) == {i \in Idx(name) : name[i] \in NumTokens}
Algs(name) == {i \in Idx(name) : name[i] \in AllAlgs}
Others(name) == {i \in Idx(name) : name[i] \in OtherTokens}

(* ---------------------------------------------------------------------- *)
(* what every outcome must satisfy *)
Universal(out, role) ==
  \/ out.kind = "ValueError"
  \/ /\ out.kind = "Std"
     /\ out.n >= 1
     /\ out.alg \in ValidAlgs(role)
     /\ (out.n = 1) <=> (out.alg = ZeroAlg(role))

(* what the statement pins down; returns the set of allowed outcomes, or {} if not forced *)
Forced(name, role) ==
  LET nums == Nums(name)
      algs == Algs(name)
      oth == Others(name)
      theNum == NumVal(name[CHOOSE i \in nums : TRUE])
      theAlg == name[CHOOSE i \in algs : TRUE]
  IN IF Cardinality(nums) >= 2 \/ Cardinality(algs) >= 2 THEN {VE}
     ELSE IF oth # {} THEN {}                                           \* junk next to anything: free
     ELSE IF Cardinality(nums) = 1 /\ algs = {}
          THEN IF theNum > 1 THEN {Std(DefaultAlg(role), theNum)}       \* bare number N > 1
               ELSE IF theNum = 1 THEN {Std(ZeroAlg(role), 1)}          \* bare 1
               ELSE {}
     ELSE IF Cardinality(nums) = 1 /\ Cardinality(algs) = 1
          THEN IF theAlg \in NonZeroAlgs(role) /\ theNum > 1 THEN {Std(theAlg, theNum)}
               ELSE IF theAlg \in ValidAlgs(role) /\ theNum = 1 THEN {Std(ZeroAlg(role), 1)}
               ELSE {}
     ELSE IF nums = {} /\ Cardinality(algs) = 1 /\ theAlg = ZeroAlg(role) THEN {Std(ZeroAlg(role), 1)}
     ELSE {}

StdTokens(out) == <<out.alg, out.n>>       \* the standard name alg_N, as (algorithm token, number)

(* ---------------------------------------------------------------------- *)
(* Reference normalisation: the decision table of GridNameParser (with the  *)
(* "no number and no algorithm" case rejected as the statement demands).    *)
RefParse(name, role) ==
  LET nums == Nums(name)
      algs == Algs(name)
      hasN == nums # {}
      nval == IF hasN THEN NumVal(name[CHOOSE i \in nums : TRUE]) ELSE -1
      alg == IF algs # {} THEN name[CHOOSE i \in algs : TRUE] ELSE "none"
      hasZero == \E i \in Idx(name) : ContainsZero(name[i])
  IN IF Cardinality(nums) >= 2 \/ Cardinality(algs) >= 2 THEN VE
     ELSE IF hasZero THEN (IF ~hasN \/ nval = 1 THEN Std(ZeroAlg(role), 1) ELSE VE)
     ELSE IF alg \in NonZeroAlgs(role)
          THEN IF ~hasN THEN VE
               ELSE IF nval = 1 THEN Std(ZeroAlg(role), 1)
               ELSE IF nval <= 0 THEN VE
               ELSE Std(alg, nval)
     ELSE IF alg = "none" /\ hasN /\ nval = 1 THEN Std(ZeroAlg(role), 1)
     ELSE IF alg = "none" /\ hasN /\ nval > 1 THEN Std(DefaultAlg(role), nval)
     ELSE VE
=============================================================================
