SPECIFICATION Spec
POSTCONDITION AllConsumed
