---------------------------- MODULE IOSetup_Trace ----------------------------
(***************************************************************************)
(* Growth G15 (b), code -> spec.  One history per tid in ONE real working  *)
(* directory with a scratch copy of the package; one record per operation, *)
(* logged after it with the projection of the directory:                   *)
(*  [tid, op ("init" | "Setup" | "SetupExamples" | "Copy" | "Add" |        *)
(*   "Remove" | "Edit"), f, id, r (arguments), examples <<[id, ext, ico]>>,*)
(*   dirs <<folder>>, files <<[f, id, cls]>>, paths, err]                  *)
(* Every record takes the model's step from the state the previous record  *)
(* left.  "SetupExamples" is the command line with --examples: Setup, then *)
(* CopyExamples.                                                           *)
(***************************************************************************)
EXTENDS Integers, Sequences, FiniteSets, TLC, Json, IOUtils

M == INSTANCE IOSetup WITH Examples <- {}, UserIds <- {}, UseFolders <- {}, UseRoots <- {}, MaxSteps <- 0, Bug <- "none",
                           st <- 0, last <- "", steps <- 0
Log == JsonDeserialize(IOEnv.TRACE_FILE)
VARIABLES l, st
Rec == Log[l]
ToSet(s) == {s[i] : i \in 1 .. Len(s)}
Real(r) == [dirs |-> ToSet(r.dirs), paths |-> r.paths,
            files |-> [k \in {<<x.f, x.id>> : x \in ToSet(r.files)} |-> (CHOOSE x \in ToSet(r.files) : <<x.f, x.id>> = k).cls]]
Ex(r) == {[id |-> x.id, ext |-> x.ext, ico |-> x.ico] : x \in ToSet(r.examples)}

Diff(got, want, what) ==
  IF got.dirs # want.dirs THEN what \o ": the set of folders is not what the model prescribes"
  ELSE IF got.paths # want.paths THEN what \o ": the package's paths file is not what the model prescribes"
  ELSE IF DOMAIN got.files # DOMAIN want.files THEN what \o ": the set of files in the folders is not what the model prescribes"
  ELSE IF got.files # want.files THEN what \o ": a file's content is not what the model prescribes"
  ELSE "ok"

Clause(r, s) ==
  CASE r.op = "init" -> "ok"
    [] r.op = "Setup" -> IF r.err # "" THEN "exception:" \o r.err ELSE Diff(Real(r), M!SetupResult(s, "none"), "Setup")
    [] r.op = "SetupExamples" -> IF r.err # "" THEN "exception:" \o r.err
                                 ELSE Diff(Real(r), M!CopyResult(M!SetupResult(s, "none"), Ex(r), "none"), "Setup with --examples")
    [] r.op = "Copy" -> IF ~M!CanCopy(s) THEN (IF r.err = "" THEN "copy_examples without the destination folders did not fail" ELSE "ok")
                        ELSE IF r.err # "" THEN "exception:" \o r.err ELSE Diff(Real(r), M!CopyResult(s, Ex(r), "none"), "copy_examples")
    [] r.op = "Add" -> Diff(Real(r), M!AddResult(s, r.f, r.id), "MACHINERY: user adds a file")
    [] r.op = "Remove" -> Diff(Real(r), M!RemoveResult(s, r.r), "MACHINERY: user removes a folder tree")
    [] r.op = "Edit" -> Diff(Real(r), [s EXCEPT !.paths = "other"], "MACHINERY: user edits the paths file")
    [] OTHER -> "MACHINERY: unknown op"

Init == l = 1 /\ st = 0 /\ TLCSet(1, 0)
Step == /\ l <= Len(Log)
        /\ LET c == IF Rec.op = "init" THEN "ok" ELSE Clause(Rec, st)
           IN IF c = "ok" THEN TRUE ELSE PrintT(<<"REJECT", Rec.tid, c, l>>)
        /\ st' = Real(Rec)                      \* continue from what the directory really is
        /\ TLCSet(1, l)
        /\ l' = l + 1
Spec == Init /\ [][Step]_<<l, st>>
AllConsumed == TLCGet(1) = Len(Log)
=============================================================================
