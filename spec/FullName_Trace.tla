--------------------------- MODULE FullName_Trace ---------------------------
(***************************************************************************)
(* Growth G10, code -> spec.  One record per real FullGrid:                *)
(*  [tid, name <<tokens>> (FullGrid.get_name() split at "_"),              *)
(*   pb, po ([kind, alg, n] the parser's b / o grid names), pt (hash       *)
(*   token), nb, no (get_num_b_rot / get_num_o_rot), realb, realo (sizes   *)
(*   of the grid object), std <<tokens>> (get_standard_full_grid_name),    *)
(*   restd <<tokens>> (the standard name parsed and rebuilt once more),    *)
(*   err]                                                                  *)
(***************************************************************************)
EXTENDS Integers, Sequences, FiniteSets, TLC, Json, IOUtils

F == INSTANCE FullName WITH Hashes <- {}, Bug <- "none", b <- 0, o <- 0, h <- 0, phase <- "", name <- <<>>
Log == JsonDeserialize(IOEnv.TRACE_FILE)
VARIABLE l
Rec == Log[l]
Norm(x) == IF x.kind = "Std" THEN F!O!Std(x.alg, x.n) ELSE F!O!VE

Clause(r) ==
  LET p == F!Parse(r.name) IN
  IF r.err # "" THEN "exception:" \o r.err
  ELSE IF Norm(r.pb) # p.b \/ Norm(r.po) # p.o THEN "the parser's grid names are not the normalisation of the two tokens after the marker"
  ELSE IF <<r.pt>> # p.t THEN "the radial identifier is not the token after the t marker"
  ELSE IF p.b.kind # "Std" \/ p.o.kind # "Std" THEN "the identifier of a real grid does not parse"
  ELSE IF r.nb # r.realb \/ r.no # r.realo \/ p.b.n # r.realb \/ p.o.n # r.realo THEN "the sizes read from the identifier are not the sizes of the grid"
  ELSE IF r.std # F!Standard(p.b, p.o, r.pt) THEN "the standard full name is not o_<o grid>_b_<b grid>_t_<hash>"
  ELSE IF r.restd # r.std THEN "the standard full name is not a fixed point of parsing"
  ELSE "ok"

Init == l = 1 /\ TLCSet(1, 0)
Step == /\ l <= Len(Log)
        /\ LET c == Clause(Rec) IN IF c = "ok" THEN TRUE ELSE PrintT(<<"REJECT", Rec.tid, c, 0>>)
        /\ TLCSet(1, l)
        /\ l' = l + 1
Spec == Init /\ [][Step]_l
AllConsumed == TLCGet(1) = Len(Log)
=============================================================================
