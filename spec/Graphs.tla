-------------------------------- MODULE Graphs --------------------------------
(***************************************************************************)
(* Growth beyond the listed properties (DESIGN §5): the graph helpers the   *)
(* polytope subdivision relies on (polytopes.py:816-883).                   *)
(*   second_neighbours(G, v)  nodes at graph distance exactly 2 from v      *)
(*   third_neighbours(G, v)   nodes at graph distance exactly 3 from v      *)
(*   remove_and_reconnect(G, v)  v is removed and all its neighbours are    *)
(*       pairwise connected; the new edge {s, t} carries                    *)
(*       p_dist(v, s) + p_dist(v, t); existing edges between neighbours     *)
(*       are overwritten by that sum (networkx add_edges_from semantics).   *)
(* Model: all undirected graphs on NN nodes (node 0 is the distinguished    *)
(* one); the operational definitions (neighbour-of-neighbour scans with the *)
(* exclusion lists of the implementation) are compared with distances.      *)
(***************************************************************************)
EXTENDS Integers, Sequences, FiniteSets, TLC

CONSTANT NN
Nodes == 0 .. (NN - 1)
UPairs == {p \in Nodes \X Nodes : p[1] < p[2]}

VARIABLES edges, phase
vars == <<edges, phase>>
Init == edges \in SUBSET UPairs /\ phase = "graph"
Spec == Init /\ [][UNCHANGED vars]_vars

Adj(E, a, b) == <<a, b>> \in E \/ <<b, a>> \in E
Nbrs(E, v) == {u \in Nodes : Adj(E, v, u)}

(* graph distance by breadth-first layers *)
RECURSIVE Layer(_, _, _, _)
Layer(E, frontier, seen, k) == IF k = 0 THEN frontier
                               ELSE LET nxt == (UNION {Nbrs(E, u) : u \in frontier}) \ seen
                                    IN Layer(E, nxt, seen \cup nxt, k - 1)
AtDistance(E, v, k) == Layer(E, {v}, {v}, k)

(* operational: the implementation's scans *)
OpSecond(E, v) == {n \in UNION {Nbrs(E, u) : u \in Nbrs(E, v)} : n # v /\ n \notin Nbrs(E, v)}
OpThird(E, v) == {n \in UNION {Nbrs(E, u) : u \in OpSecond(E, v)} : n # v /\ n \notin Nbrs(E, v) /\ n \notin OpSecond(E, v)}

SecondIsDistanceTwo == OpSecond(edges, 0) = AtDistance(edges, 0, 2)
ThirdIsDistanceThree == OpThird(edges, 0) = AtDistance(edges, 0, 3)

(* remove_and_reconnect(G, 0): resulting edge set over the remaining nodes *)
Ord(a, b) == IF a < b THEN <<a, b>> ELSE <<b, a>>
Reconnected(E, v) == {e \in E : e[1] # v /\ e[2] # v} \cup ({Ord(s, t) : s, t \in Nbrs(E, v)} \ {<<x, x>> : x \in Nodes})
(* paths through the removed node are preserved as direct edges: distances between remaining nodes never grow *)
DistancesNeverGrow == \A a, b \in Nodes \ {0} : \A k \in 1 .. 2 :
   b \in AtDistance(edges, a, k) => \E m \in 0 .. k : b \in AtDistance(Reconnected(edges, 0), a, m)
=============================================================================
