--------------------------- MODULE PolyViews_Trace ---------------------------
(***************************************************************************)
(* Growth G13, code -> spec.  Graph views of a polytope object (the part   *)
(* of polytopes.py no listed property speaks about; used by tests and      *)
(* plots).  Nodes are named by their central index 0..n-1.  One record per *)
(* view of a real polytope:                                                *)
(*  adjview  [n, edges <<[a,b]>> (the creation graph), pairs <<[i,j]>>     *)
(*           (non-zero entries of get_polytope_adj_matrix())]              *)
(*  nelement [n, edges, N, after <<[a,b]>> (edges of the graph returned by *)
(*           get_N_element_graph(first N nodes)), kept <<node>>]           *)
(*           = the nodes N..n-1 removed one after the other in index       *)
(*           order, each time connecting the removed node's neighbours     *)
(*           pairwise (Graphs!Reconnected, the operator G01 binds to       *)
(*           remove_and_reconnect)                                         *)
(*  cells    [n, coords <<<<int>>>> (lattice coordinates, doubled),        *)
(*           M (the extreme coordinate value), faces <<<<cell>>>> (the     *)
(*           node attribute), cells <<<<node>>>> (get_all_cells, 8 cells)] *)
(*           cell c of the hypercube = the nodes whose coordinate c mod 4  *)
(*           is extreme with the sign of c div 4 - checked as: every cell  *)
(*           is exactly the node set of one (coordinate, sign), all eight  *)
(*           are used, and the attribute agrees with the cells             *)
(***************************************************************************)
EXTENDS Integers, Sequences, FiniteSets, TLC, Json, IOUtils

Log == JsonDeserialize(IOEnv.TRACE_FILE)
VARIABLE l
Rec == Log[l]
ToSet(s) == {s[i] : i \in 1 .. Len(s)}
Ord(a, b) == IF a < b THEN <<a, b>> ELSE <<b, a>>
ESet(s) == {Ord(e[1], e[2]) : e \in ToSet(s)}
Nb(E, v) == {e[2] : e \in {x \in E : x[1] = v}} \cup {e[1] : e \in {x \in E : x[2] = v}}
(* the definition of Graphs!Reconnected (G01), on edge sets over arbitrary node numbers *)
Remove(E, v) == {e \in E : e[1] # v /\ e[2] # v} \cup ({Ord(s, t) : s, t \in Nb(E, v)} \ {<<x, x>> : x \in Nb(E, v)})
RECURSIVE RemoveDown(_, _, _)
RemoveDown(E, v, last) == IF v > last THEN E ELSE RemoveDown(Remove(E, v), v + 1, last)

Clause(r) ==
  IF r.err # "" THEN "exception:" \o r.err
  ELSE CASE r.ev = "adjview" ->
         LET E == ESet(r.edges)
             P == {<<p[1], p[2]>> : p \in ToSet(r.pairs)}
         IN IF \E p \in P : p[1] = p[2] THEN "adjacency matrix has a diagonal entry"
            ELSE IF \E p \in P : <<p[2], p[1]>> \notin P THEN "adjacency matrix is not symmetric"
            ELSE IF {Ord(p[1], p[2]) : p \in P} # E THEN "adjacency matrix (in index order) is not the edge set of the creation graph"
            ELSE "ok"
    [] r.ev = "nelement" ->
         LET want == TLCEval(RemoveDown(ESet(r.edges), r.N, r.n - 1))
         IN IF ToSet(r.kept) # 0 .. (r.N - 1) THEN "the N-element graph does not keep exactly the first N nodes"
            ELSE IF ESet(r.after) # want THEN "the N-element graph is not 'remove the other nodes in index order, reconnecting their neighbours'"
            ELSE "ok"
    [] r.ev = "cells" ->
         LET nodes == 0 .. (r.n - 1)
             side(k, sg) == {v \in nodes : r.coords[v + 1][k] = sg * r.M}
             sides == {side(k, sg) : k \in 1 .. 4, sg \in {-1, 1}}
             cellsets == {ToSet(r.cells[c]) : c \in 1 .. Len(r.cells)}
         IN IF Len(r.cells) # 8 THEN "not eight cells"
            ELSE IF cellsets # sides \/ Cardinality(cellsets) # 8 THEN "the eight cells are not the eight sides (coordinate extreme, sign) of the hypercube"
            ELSE IF \E v \in nodes : {c \in 1 .. 8 : v \in ToSet(r.cells[c])} # {c + 1 : c \in ToSet(r.faces[v + 1])}
                 THEN "the face attribute of a node is not the set of cells it lies in"
            ELSE "ok"
    [] OTHER -> "MACHINERY: unknown event"

Init == l = 1 /\ TLCSet(1, 0)
Step == /\ l <= Len(Log)
        /\ LET c == Clause(Rec) IN IF c = "ok" THEN TRUE ELSE PrintT(<<"REJECT", Rec.tid, c, 0>>)
        /\ TLCSet(1, l)
        /\ l' = l + 1
Spec == Init /\ [][Step]_l
AllConsumed == TLCGet(1) = Len(Log)
=============================================================================
