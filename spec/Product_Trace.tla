----------------------------- MODULE Product_Trace -----------------------------
(***************************************************************************)
(* C02, code -> spec.  One record per real FullGrid:                       *)
(*  [tid, nP, nB, err,                                                     *)
(*   posA, posB, posD : dense nP x nP matrices of value-class ids (0 = no  *)
(*                      entry): position-grid adjacency/borders/distances, *)
(*   rotA, rotB, rotD : dense nB x nB matrices: rotation-grid matrices,    *)
(*   fullA, fullB, fullD : <<[n, m, id]>> the three full matrices in        *)
(*                                        STORED order,                     *)
(*   mulF, mulF2 : <<[id, id']>>  class of f*v and f^2*v for every class v, *)
(*   vol <<id>>, volTable <<<<id>>>> (class of posV[p]*rotV[b]*f^3),        *)
(*   positive (every stored entry and volume strictly positive, finite)]   *)
(*   optional: partPosA, partRotA, partPosD, partRotD <<[n, m, id]>> = the    *)
(*   adjacency / distance getters with only_position / only_orientation    *)
(*   optional (growth G06): pref <<[n, m, id]>> = get_full_prefactors in   *)
(*   stored order, prefT lookup table, prefPure, prefErr                   *)
(* Value classes: relative 1e-9, shared by all numbers of the record.      *)
(***************************************************************************)
EXTENDS Integers, Sequences, FiniteSets, TLC, Json, IOUtils

P == INSTANCE Product WITH MaxP <- 0, MaxB <- 0, Vals <- {}, Bug <- "none", nP <- 0, nB <- 0, pos <- <<>>, rot <- <<>>,
                           full <- <<>>, phase <- ""
Log == JsonDeserialize(IOEnv.TRACE_FILE)
VARIABLES l,
          fam      \* which family carries the factor f: "unknown" until a grid with f # 1 decides it, then "position" or "rotation";
                   \* "applied uniformly to one of the two families" means the SAME family for every grid
Rec == Log[l]
ToSet(s) == {s[i] : i \in 1 .. Len(s)}
Pat(s) == {<<e[1], e[2]>> : e \in ToSet(s)}
Triples(s) == {<<e[1], e[2], e[3]>> : e \in ToSet(s)}
Map(s) == [k \in {e[1] : e \in ToSet(s)} |-> (CHOOSE e \in ToSet(s) : e[1] = k)[2]]
Order(s) == [i \in 1 .. Len(s) |-> <<s[i][1], s[i][2]>>]
DensePat(m) == {p \in (0 .. (Len(m) - 1)) \X (0 .. (Len(m) - 1)) : m[p[1] + 1][p[2] + 1] # 0}

(* the expected class of full entry (n, m) for one matrix, given which family carries the factor;
   posM / rotM are dense id matrices (0 = no entry) *)
Want(r, posM, rotM, scale, posScaled, n, m) ==
  LET b == r.nB
      p1 == n \div b  p2 == m \div b  b1 == n % b  b2 == m % b
  IN IF b1 = b2 THEN (IF posScaled THEN scale[posM[p1 + 1][p2 + 1]] ELSE posM[p1 + 1][p2 + 1])
     ELSE (IF posScaled THEN rotM[b1 + 1][b2 + 1] ELSE scale[rotM[b1 + 1][b2 + 1]])

(* growth G06: FullGrid.get_full_prefactors = S_nm / (h_nm V_n), entry by entry in the stored order of the border matrix
   (the code divides the data arrays of the border and the distance matrix position by position); the quotient classes
   come as a lookup table prefT <<[borderId, distanceId, volumeId, quotientId]>> computed numerically by the harness *)
PrefClause(r) ==
  LET T4 == TLCEval({<<t[1], t[2], t[3], t[4]>> : t \in ToSet(r.prefT)})
  IN IF r.prefErr # "" THEN "exception:" \o r.prefErr
     ELSE IF Order(r.pref) # Order(r.fullB) THEN "prefactor matrix differs from the border matrix in pattern or stored order"
     ELSE IF \E k \in 1 .. Len(r.pref) : <<r.fullB[k][3], r.fullD[k][3], r.vol[r.pref[k][1] + 1], r.pref[k][3]>> \notin T4
          THEN "prefactor entry is not border / (distance x volume of the row cell)"
     ELSE IF ~r.prefPure THEN "asking for the prefactors changed what the grid answers afterwards (borders / distances / volumes)"
     ELSE "ok"

(* the same getters with their documented options (only_position: pairs of cells at ONE position, i.e. rotation neighbours;
   only_orientation: pairs with ONE rotation, i.e. position neighbours), asked of the same object after the full matrices:
   each is exactly the part of the full matrix between such cells - together they are the full matrix, nothing twice *)
PartClause(r) ==
  LET b == r.nB
      tA == TLCEval(Triples(r.fullA))  tD == TLCEval(Triples(r.fullD))
      SamePos(t) == {e \in t : e[1] \div b = e[2] \div b}
      SameRot(t) == {e \in t : e[1] % b = e[2] % b}
  IN IF Triples(r.partPosA) # SamePos(tA) \/ Triples(r.partPosD) # SamePos(tD)
     THEN "an only_position matrix is not the part of the full matrix between cells at one position"
     ELSE IF Triples(r.partRotA) # SameRot(tA) \/ Triples(r.partRotD) # SameRot(tD)
     THEN "an only_orientation matrix is not the part of the full matrix between cells with one rotation"
     ELSE "ok"

ClauseG(r, verdict) ==
  LET n == r.nP * r.nB
      pA == TLCEval(DensePat(r.posA))  rA == TLCEval(DensePat(r.rotA))
      fA == TLCEval(Pat(r.fullA))
      decl == TLCEval({nm \in (0 .. (n - 1)) \X (0 .. (n - 1)) :
                 \/ (nm[1] % r.nB = nm[2] % r.nB /\ <<nm[1] \div r.nB, nm[2] \div r.nB>> \in pA)
                 \/ (nm[1] \div r.nB = nm[2] \div r.nB /\ <<nm[1] % r.nB, nm[2] % r.nB>> \in rA)})
      mF == TLCEval(Map(r.mulF) @@ (0 :> -1))  mF2 == TLCEval(Map(r.mulF2) @@ (0 :> -1))
      tB == TLCEval(Triples(r.fullB))  tD == TLCEval(Triples(r.fullD))
      okWith(posScaled) ==
         /\ \A e \in tB : e[3] = Want(r, r.posB, r.rotB, mF2, posScaled, e[1], e[2])
         /\ \A e \in tD : e[3] = Want(r, r.posD, r.rotD, mF, posScaled, e[1], e[2])
  IN IF ~verdict THEN (IF r.err # "" \/ Len(r.vol) # n THEN "unknown"
                       ELSE IF okWith(TRUE) /\ ~okWith(FALSE) THEN "position"
                       ELSE IF okWith(FALSE) /\ ~okWith(TRUE) THEN "rotation" ELSE "unknown")
     ELSE IF r.err # "" THEN "exception:" \o r.err
     ELSE IF Len(r.vol) # n THEN "number of volumes"
     ELSE IF \E p \in fA : p[1] = p[2] THEN "diagonal entry"
     ELSE IF \E p \in fA : <<p[2], p[1]>> \notin fA THEN "adjacency not symmetric"
     ELSE IF DensePat(r.posB) # pA \/ DensePat(r.posD) # pA THEN "position-grid matrices differ in pattern"
     ELSE IF DensePat(r.rotB) # rA \/ DensePat(r.rotD) # rA THEN "rotation-grid matrices differ in pattern"
     ELSE IF Pat(r.fullB) # fA \/ Pat(r.fullD) # fA THEN "the three full matrices differ in pattern"
     ELSE IF Order(r.fullB) # Order(r.fullA) \/ Order(r.fullD) # Order(r.fullA) THEN "the three full matrices differ in stored entry order"
     ELSE IF fA # decl THEN "adjacency is not the product of position and rotation adjacency"
     ELSE IF ~r.positive THEN "an entry or a volume is not strictly positive and finite"
     ELSE IF \E e \in tB : <<e[2], e[1], e[3]>> \notin tB THEN "borders not symmetric"
     ELSE IF \E e \in tD : <<e[2], e[1], e[3]>> \notin tD THEN "distances not symmetric"
     ELSE IF ~(okWith(TRUE) \/ okWith(FALSE)) THEN "an entry is not the position / rotation quantity with f (f^2) applied to one family"
     ELSE IF (fam = "position" /\ ~okWith(TRUE)) \/ (fam = "rotation" /\ ~okWith(FALSE))
          THEN "the factor f is applied to another family than in the other grids"
     ELSE IF \E k \in 0 .. (n - 1) : r.vol[k + 1] # r.volTable[(k \div r.nB) + 1][(k % r.nB) + 1]
          THEN "6D volume is not position volume x rotation volume x f^3 in cell order"
     ELSE IF "partPosA" \in DOMAIN r /\ PartClause(r) # "ok" THEN PartClause(r)
     ELSE IF "pref" \in DOMAIN r THEN PrefClause(r)
     ELSE "ok"

Clause(r) == ClauseG(r, TRUE)
FamilyOf(r) ==     \* "position" / "rotation" if exactly one assignment explains this grid, else "unknown"
  LET a == ClauseG(r, FALSE) IN
  IF a = "position" \/ a = "rotation" THEN a ELSE "unknown"

Init == l = 1 /\ fam = "unknown" /\ TLCSet(1, 0)
Step == /\ l <= Len(Log)
        /\ LET c == Clause(Rec) IN IF c = "ok" THEN TRUE ELSE PrintT(<<"REJECT", Rec.tid, c, 0>>)
        /\ fam' = IF fam = "unknown" /\ Clause(Rec) = "ok" THEN FamilyOf(Rec) ELSE fam
        /\ TLCSet(1, l)
        /\ l' = l + 1
Spec == Init /\ [][Step]_<<l, fam>>
AllConsumed == TLCGet(1) = Len(Log)
=============================================================================
