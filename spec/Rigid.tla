-------------------------------- MODULE Rigid --------------------------------
(***************************************************************************)
(* C10.  The pseudotrajectory as a state machine over the ONE mutable       *)
(* moving molecule (pts.py:40-60).  For every grid row k, three steps:      *)
(*    Reset      positions := reference positions                           *)
(*    Rotate     about the current centre of mass by R(q_k)                 *)
(*    Translate  by p_k; then the frame is emitted                          *)
(* Coordinates are kept as integer vectors over the common denominator      *)
(* den (the product of the n_k^2 of the rotations applied since the last    *)
(* reset), so everything stays in integer arithmetic.  The molecule is      *)
(* centred (coordinates sum to zero, one element), as the reader delivers.  *)
(* Declarative: frame k = R(q_k) ref + p_k.                                 *)
(***************************************************************************)
EXTENDS IntGeom, FiniteSets, TLC

CONSTANTS MaxFrames, Bug
   \* Bug: "none" | "noReset" | "transposed" | "scalarFirst" | "aboutOriginUncentred"

(* default value sets (cfg files cannot write tuples) *)
Quats == {<<0, 0, 0, 1>>, <<1, 2, 2, 4>>, <<1, 1, 1, 1>>, <<2, 3, 6, 0>>, <<0, 3, 0, 4>>}
Positions == {<<0, 0, 0>>, <<3, -1, 2>>, <<0, 0, 5>>}
Ref == << <<3, 1, 0>>, <<-1, 2, 1>>, <<-2, -3, -1>> >>        \* three atoms of one element, coordinates sum to zero

VARIABLES grid,     \* sequence of rows [p, q]
          k,        \* current frame (1-based), Len(grid)+1 when finished
          step,     \* "reset" | "rotate" | "translate" | "emit"
          pos, den, \* current coordinates of the moving molecule = pos / den
          frames    \* emitted frames: sequence of [pos, den]
vars == <<grid, k, step, pos, den, frames>>

Atoms == 1 .. Len(Ref)
Grids == UNION {[1 .. L -> [p : Positions, q : Quats]] : L \in 0 .. MaxFrames}

Init == /\ grid \in Grids /\ k = 1 /\ step = "reset"
        /\ pos = Ref /\ den = 1 /\ frames = <<>>

QEff(q) == IF Bug = "scalarFirst" THEN <<q[2], q[3], q[4], q[1]>> ELSE q
Mat(q) == IF Bug = "transposed" THEN Transpose(RotN2(QEff(q))) ELSE RotN2(QEff(q))

Reset == /\ k <= Len(grid) /\ step = "reset" /\ step' = "rotate"
         /\ IF Bug = "noReset" THEN UNCHANGED <<pos, den>> ELSE pos' = Ref /\ den' = 1
         /\ UNCHANGED <<grid, k, frames>>
(* rotation about the centre of mass; the molecule is centred, so the centre of mass of the reset
   geometry is the origin; after "noReset" it is wherever the previous frame left it *)
Com(ps) == LET s == <<0, 0, 0>> IN
  <<(ps[1][1] + ps[2][1] + ps[3][1]) , (ps[1][2] + ps[2][2] + ps[3][2]), (ps[1][3] + ps[2][3] + ps[3][3])>>   \* times Len = 3
Rotate == /\ step = "rotate" /\ step' = "translate"
          /\ LET q == grid[k].q
                 n2 == QNorm2(q)
                 c3 == Com(pos)                      \* 3 * centre of mass * den
             IN /\ den' = den * n2 * 3
                /\ pos' = [a \in Atoms |->
                     \* R (x - c) + c  with x = pos/den, c = c3/(3 den):  numerator over den*n2*3
                     VAdd(MatVec(Mat(q), VSub(VScale(3, pos[a]), c3)), VScale(n2, c3))]
          /\ UNCHANGED <<grid, k, frames>>
Translate == /\ step = "translate" /\ step' = "emit"
             /\ pos' = [a \in Atoms |-> VAdd(pos[a], VScale(den, grid[k].p))]
             /\ UNCHANGED <<grid, k, den, frames>>
Emit == /\ step = "emit" /\ step' = "reset"
        /\ frames' = Append(frames, [pos |-> pos, den |-> den])
        /\ k' = k + 1
        /\ UNCHANGED <<grid, pos, den>>
Next == Reset \/ Rotate \/ Translate \/ Emit
Spec == Init /\ [][Next]_vars

(* ---- declarative ---- *)
DeclFrame(row) == [a \in Atoms |-> VAdd(RotateN2(row.q, Ref[a]), VScale(QNorm2(row.q), row.p))]     \* over n^2
SameFrame(f, row) == \A a \in Atoms : VScale(QNorm2(row.q), f.pos[a]) = VScale(f.den, DeclFrame(row)[a])

FramesAreRigidPlacements == \A i \in 1 .. Len(frames) : SameFrame(frames[i], grid[i])
OneFramePerRow == (k = Len(grid) + 1) => Len(frames) = Len(grid)
DistancesPreserved == \A i \in 1 .. Len(frames) : \A a, b \in Atoms :
   Norm2(VSub(frames[i].pos[a], frames[i].pos[b])) = frames[i].den * frames[i].den * Norm2(VSub(Ref[a], Ref[b]))
(* the spec's own matrix is a rotation: R R^T = n^4 I for every quaternion used *)
MatrixOrthogonal == \A q \in Quats : LET M == RotN2(q) n4 == QNorm2(q) * QNorm2(q) IN
   \A i, j \in 1 .. 3 : Dot(M[i], M[j]) = IF i = j THEN n4 ELSE 0
=============================================================================
