SPECIFICATION Spec
POSTCONDITION AllConsumed
