-------------------------------- MODULE Molgri --------------------------------
(***************************************************************************)
(* The molgri pipeline as one state machine over an ARTEFACT STORE          *)
(* (DESIGN §5; properties C14, C20, C09, C02 meet here).                    *)
(*                                                                          *)
(* Artefacts: array, volumes, adjacency, borders, distances (grid files),   *)
(* pt (pseudotrajectory frames), energy (per-frame table), rate, ilist,     *)
(* eig.  Every per-cell artefact carries the CELL ORDER it is indexed by:   *)
(*   "grid"   n = (t*nO + o)*nB + b   (the one order of FullIndex.tla)      *)
(*   "lumped" rows indexed through the index list of Merge.tla              *)
(* and a content version (which grid specification it was derived from).    *)
(* Actions follow workflow/run_grid and workflow/run_sqra.                  *)
(***************************************************************************)
EXTENDS Integers, Sequences, FiniteSets, TLC

CONSTANTS Specs,      \* grid specifications (abstract ids)
          Bug         \* "none" | "energyOrderByRotation"

GridArts == {"array", "volumes", "adjacency", "borders", "distances"}
Arts == GridArts \cup {"pt", "energy", "rate", "eig", "traj", "assign", "msm"}
None == [spec |-> 0, order |-> "none"]

VARIABLES cur,     \* the grid specification being worked on
          mem,     \* in-memory artefacts of the current process:  art -> [spec, order]
          store,   \* files, one directory per grid identifier:    spec -> art -> [spec, order]
          good     \* monitor: every Read returned the stored artefact and every BuildRate saw consistent inputs
vars == <<cur, mem, store, good>>

Init == /\ cur \in Specs /\ mem = [a \in Arts |-> None]
        /\ store = [s \in Specs |-> [a \in Arts |-> None]] /\ good = TRUE

Have(m, a) == m[a] # None
Tag(s, o) == [spec |-> s, order |-> o]

NewSpec(s) == /\ s # cur /\ cur' = s
              /\ mem' = [a \in Arts |-> None]            \* a new process: nothing in memory, files stay
              /\ UNCHANGED <<store, good>>
NewProcess == /\ mem' = [a \in Arts |-> None]         \* every workflow rule is a job of its own: it knows only what it reads
              /\ UNCHANGED <<cur, store, good>>
BuildGrid == /\ mem' = [a \in Arts |-> IF a \in GridArts THEN Tag(cur, "grid") ELSE mem[a]]
             /\ UNCHANGED <<cur, store, good>>
Write(a) == /\ Have(mem, a) /\ store' = [store EXCEPT ![cur][a] = mem[a]]
            /\ UNCHANGED <<cur, mem, good>>
Read(a) == /\ Have(store[cur], a)
           /\ mem' = [mem EXCEPT ![a] = store[cur][a]]
           /\ good' = (good /\ mem'[a] = store[cur][a])       \* what is read is what was written
           /\ UNCHANGED <<cur, store>>
GenPT == /\ Have(mem, "array") /\ mem' = [mem EXCEPT !["pt"] = mem["array"]]
         /\ UNCHANGED <<cur, store, good>>
ComputeEnergy ==      \* environment (GROMACS / ORCA): one energy row per frame, in frame order
   /\ Have(mem, "pt")
   /\ mem' = [mem EXCEPT !["energy"] = IF Bug = "energyOrderByRotation" THEN Tag(mem["pt"].spec, "rotation-major") ELSE mem["pt"]]
   /\ UNCHANGED <<cur, store, good>>
RateInputs == {"energy", "volumes", "borders", "distances"}
BuildRate == /\ \A a \in RateInputs : Have(mem, a)
             /\ mem' = [mem EXCEPT !["rate"] = mem["energy"]]
             /\ good' = (good /\ \A a, b \in RateInputs : mem[a].spec = mem[b].spec /\ mem[a].order = mem[b].order)
             /\ UNCHANGED <<cur, store>>
Decompose == /\ (Have(mem, "rate") \/ Have(mem, "msm"))
             /\ mem' = [mem EXCEPT !["eig"] = IF Have(mem, "rate") THEN mem["rate"] ELSE mem["msm"]]
             /\ UNCHANGED <<cur, store, good>>
(* workflow run_msm: a trajectory of the two molecules (environment), its frames assigned to grid cells, MSM *)
Simulate == /\ mem' = [mem EXCEPT !["traj"] = Tag(cur, "frames")] /\ UNCHANGED <<cur, store, good>>      \* the MD run needs no grid
Assign == /\ Have(mem, "array") /\ (Have(mem, "traj") \/ Have(mem, "pt"))
          /\ mem' = [mem EXCEPT !["assign"] = mem["array"]]           \* cell indices refer to the order of the array
          /\ UNCHANGED <<cur, store, good>>
BuildMsm == /\ Have(mem, "assign") /\ mem' = [mem EXCEPT !["msm"] = mem["assign"]] /\ UNCHANGED <<cur, store, good>>

FileArts == GridArts \cup {"energy", "pt"}     \* what the workflows persist between rules (rate files behave alike)
SmallFileArts == {"volumes", "energy"}         \* quick configuration: `FileArts <- SmallFileArts' (the other files behave alike)
Next == (\E s \in Specs : NewSpec(s)) \/ NewProcess \/ BuildGrid \/ (\E a \in FileArts : Write(a) \/ Read(a))
        \/ GenPT \/ ComputeEnergy \/ BuildRate \/ Decompose \/ Simulate \/ Assign \/ BuildMsm
Spec == Init /\ [][Next]_vars

(* ---- system invariants ---- *)
(* every artefact that exists is indexed by the one grid order *)
OneCellOrder == \A a \in Arts \ {"traj"} : (Have(mem, a) => mem[a].order = "grid")
                               /\ \A s \in Specs : (Have(store[s], a) => store[s][a].order = "grid")
(* a grid directory only ever holds artefacts of its own specification *)
DirectoriesArePure == \A s \in Specs, a \in Arts : Have(store[s], a) => store[s][a].spec = s
(* everything in memory belongs to the current specification *)
MemoryIsCurrent == \A a \in Arts : Have(mem, a) => mem[a].spec = cur
(* what is read is what was written; the rate matrix is built from inputs of one grid in one order *)
ReadIsWriteAndRateConsistent == good
=============================================================================
