------------------------------ MODULE SphereCells ------------------------------
(***************************************************************************)
(* C03 (and the geometric half of C04).  What a Voronoi tessellation of    *)
(* the sphere IS, combinatorially, given the incidence between Voronoi     *)
(* vertices and centres (supplied by an independent numeric oracle):       *)
(*   Cell(i)   = vertices incident to centre i                             *)
(*   Adj(i,j)  = i # j and the two cells share at least two vertices       *)
(*               (two convex spherical cells sharing two vertices share    *)
(*               the arc between them; ONE shared vertex - four or more    *)
(*               cells meeting in a point - is not adjacency)              *)
(* plus the self-checks every such complex satisfies (Euler, >= 3 cells    *)
(* per vertex).  The model below runs the definitions on three known       *)
(* complexes (tetrahedron, octahedron, cube as Voronoi diagrams of their   *)
(* duals) as a sanity check of the definitions themselves.                 *)
(***************************************************************************)
EXTENDS Integers, Sequences, FiniteSets, TLC

Cell(Inc, i) == {p[1] : p \in {q \in Inc : q[2] = i}}
Vertices(Inc) == {p[1] : p \in Inc}
Shared(Inc, i, j) == Cell(Inc, i) \cap Cell(Inc, j)
Adj(Inc, i, j) == i # j /\ Cardinality(Shared(Inc, i, j)) >= 2
AdjPairs(Inc, n) == {p \in (0 .. (n - 1)) \X (0 .. (n - 1)) : Adj(Inc, p[1], p[2])}
EveryVertexHasThreeCells(Inc) == \A v \in Vertices(Inc) : Cardinality({p \in Inc : p[1] = v}) >= 3
Euler(Inc, n) == Cardinality(Vertices(Inc)) - (Cardinality(AdjPairs(Inc, n)) \div 2) + n = 2

(* ---- sanity model: three known complexes ---- *)
Tetra == {<<v, c>> \in (0 .. 3) \X (0 .. 3) : v # c}                 \* vertex v is opposite to centre v
Octa == {<<v, c>> \in (0 .. 7) \X (0 .. 5) :                          \* 6 centres +-x,+-y,+-z; 8 vertices = sign triples
            LET ax == c \div 2  sg == c % 2 IN ((v \div (IF ax = 0 THEN 4 ELSE IF ax = 1 THEN 2 ELSE 1)) % 2) = sg}
CubeDual == {<<v, c>> \in (0 .. 5) \X (0 .. 7) :                      \* 8 centres = sign triples; 6 vertices +-x,+-y,+-z
            LET ax == v \div 2  sg == v % 2 IN ((c \div (IF ax = 0 THEN 4 ELSE IF ax = 1 THEN 2 ELSE 1)) % 2) = sg}

VARIABLES inc, ncells
vars == <<inc, ncells>>
Init == \E c \in {<<Tetra, 4>>, <<Octa, 6>>, <<CubeDual, 8>>} : inc = c[1] /\ ncells = c[2]
Spec == Init /\ [][UNCHANGED vars]_vars

SanityEuler == Euler(inc, ncells)
SanityThree == EveryVertexHasThreeCells(inc)
SanitySymmetric == \A p \in AdjPairs(inc, ncells) : <<p[2], p[1]>> \in AdjPairs(inc, ncells)
(* in the octahedron-as-centres complex every vertex (cube corner) has 3 cells; opposite faces are not adjacent *)
SanityDegrees == /\ (ncells = 4 => Cardinality(AdjPairs(inc, 4)) = 12)
                 /\ (ncells = 6 => Cardinality(AdjPairs(inc, 6)) = 24)
                 /\ (ncells = 8 => Cardinality(AdjPairs(inc, 8)) = 24)     \* four cells meet in each vertex: diagonal pairs share ONE vertex only
=============================================================================
