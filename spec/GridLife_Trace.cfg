SPECIFICATION Spec
POSTCONDITION AllConsumed
