SPECIFICATION Spec
CONSTANTS
  FileArts <- SmallFileArts
  Specs = {1, 2}
  Bug = "none"
INVARIANT OneCellOrder
INVARIANT DirectoriesArePure
INVARIANT MemoryIsCurrent
INVARIANT ReadIsWriteAndRateConsistent
