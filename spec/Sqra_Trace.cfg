SPECIFICATION Spec
POSTCONDITION AllConsumed
