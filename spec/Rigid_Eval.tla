------------------------------ MODULE Rigid_Eval ------------------------------
(***************************************************************************)
(* C10, spec -> code.  Evaluator: for every case                           *)
(*    [ref <<<<x,y,z>>>> (centred reference geometry, integer units),      *)
(*     rows <<[p <<x,y,z>>, q <<x,y,z,w>>]>>]                              *)
(* write the expected frames: for every row the integer numerators of      *)
(* R(q) ref_a + p over the denominator n^2 = |q|^2.                        *)
(***************************************************************************)
EXTENDS Integers, Sequences, TLC, Json, IOUtils
G == INSTANCE IntGeom
Cases == JsonDeserialize(IOEnv.CASES_FILE)

Expect(c) == [k \in 1 .. Len(c.rows) |->
   LET row == c.rows[k] n2 == G!QNorm2(row.q) IN
   [den |-> n2,
    atoms |-> [a \in 1 .. Len(c.ref) |-> G!VAdd(G!RotateN2(row.q, c.ref[a]), G!VScale(n2, row.p))],
    d2 |-> [a \in 1 .. Len(c.ref) |-> G!Norm2(G!VSub(c.ref[a], c.ref[1]))]]]      \* squared distances to atom 1 (preserved)

ASSUME JsonSerialize(IOEnv.OUT_FILE, [i \in 1 .. Len(Cases) |-> Expect(Cases[i])])
ASSUME PrintT(<<"evaluated", Len(Cases)>>)
=============================================================================
