--------------------------- MODULE FullIndex_Trace ---------------------------
(***************************************************************************)
(* C09, code -> spec.  One record per real FullGrid:                       *)
(*  [tid, nT, nO, nB,                                                      *)
(*   rows: <<[o,t,b]>> (ids of the generating direction / radius / rotation*)
(*         that each array row matches; -1 = no match; width = 7 columns), *)
(*   norms6 / input7: observed radius per shell (1e-6 A) and nm input     *)
(*   (1e-7 nm): equal numbers when the radius is ten times the input,      *)
(*   helpers: <<[idx, q, p]>>  (index argument, quaternion-index result,   *)
(*            position-index result; idx = <<-1>> stands for None),        *)
(*   dec: [o, b, t6]  (ids / fixed-point radii of from_full_array_to_o_b_t)*)
(*   err]                                                                  *)
(***************************************************************************)
EXTENDS Integers, Sequences, FiniteSets, TLC, Json, IOUtils

F == INSTANCE FullIndex WITH MaxT <- 0, MaxO <- 0, MaxB <- 0, MaxIdx <- 0, Bug <- "none",
                             nT <- 0, nO <- 0, nB <- 0, idx <- <<>>, phase <- ""
Log == JsonDeserialize(IOEnv.TRACE_FILE)
VARIABLE l
Rec == Log[l]
Abs(x) == IF x < 0 THEN -x ELSE x

HelperOK(r, h) ==
  LET n == r.nT * r.nO * r.nB
      ix == IF h.idx = <<-1>> THEN F!Arange(n) ELSE h.idx
  IN /\ h.q = [i \in 1 .. Len(ix) |-> ix[i] % r.nB]
     /\ h.p = [i \in 1 .. Len(ix) |-> ix[i] \div r.nB]

Clause(r) ==
  LET n == r.nT * r.nO * r.nB IN
  IF r.err # "" THEN "exception:" \o r.err
  ELSE IF r.helpersOnly THEN          \* a grid too large to match row by row: the index helpers on chosen indices only
       (IF \E j \in 1 .. Len(r.helpers) : ~HelperOK(r, r.helpers[j]) THEN "index helper" ELSE "ok")
  ELSE IF Len(r.rows) # n \/ r.width # 7 THEN "array shape"
  ELSE IF \E i \in 0 .. (n - 1) : r.rows[i + 1] # F!RowOf(i, r.nO, r.nB) THEN "row order"
  ELSE IF \E k \in 1 .. r.nT : Abs(r.norms6[k] - r.input7[k]) > 1 THEN "radii are not ten times the nm input"          \* 1e-6 A = 1e-7 nm
  ELSE IF \E j \in 1 .. Len(r.helpers) : ~HelperOK(r, r.helpers[j]) THEN "index helper"
  ELSE IF r.dec.o # F!Arange(r.nO) THEN "decomposition: directions"
  ELSE IF r.dec.b # F!Arange(r.nB) THEN "decomposition: rotations"
  ELSE IF Len(r.dec.t6) # r.nT \/ \E k \in 1 .. r.nT : Abs(r.dec.t6[k] - r.norms6[k]) > 1 THEN "decomposition: radii"
  ELSE "ok"

Init == l = 1 /\ TLCSet(1, 0)
Step == /\ l <= Len(Log)
        /\ LET c == Clause(Rec) IN IF c = "ok" THEN TRUE ELSE PrintT(<<"REJECT", Rec.tid, c, 0>>)
        /\ TLCSet(1, l)
        /\ l' = l + 1
Spec == Init /\ [][Step]_l
AllConsumed == TLCGet(1) = Len(Log)
=============================================================================
