SPECIFICATION Spec
CONSTANTS
  Specs = {1, 2}
  Bug = "none"
INVARIANT OneCellOrder
INVARIANT DirectoriesArePure
INVARIANT MemoryIsCurrent
INVARIANT ReadIsWriteAndRateConsistent
