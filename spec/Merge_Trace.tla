---------------------------- MODULE Merge_Trace ----------------------------
(***************************************************************************)
(* C13, code -> spec.  Validates histories recorded from the real          *)
(* merge_matrix_cells / delete_rate_cells against Merge.tla.               *)
(* One JSON record per history:                                            *)
(*   [tid, n, kind, storage, ops: << [op, arg, ilist, mat, exact, err] >>] *)
(* Every op is one step of this trace spec; the step checks that the       *)
(* observed (index list, matrix) is one of the successors Merge.tla allows.*)
(* A failing step prints <<"REJECT", tid, clause, step>> and the rest of   *)
(* that history is skipped (reject-and-continue).                          *)
(***************************************************************************)
EXTENDS Integers, Sequences, FiniteSets, TLC, Json, IOUtils, SequencesExt

Log == JsonDeserialize(IOEnv.TRACE_FILE)

VARIABLES l,           \* index of the history being validated
          k,           \* index of the next op in that history
          groups, normalised, ilist, mat     \* the abstract state of Merge.tla

vars == <<l, k, groups, normalised, ilist, mat>>

O == INSTANCE MergeOps

Rec == Log[l]
Op == Rec.ops[k]

SeqToSet(s) == {s[i] : i \in 1 .. Len(s)}
JoinOf(arg) == {SeqToSet(sub) : sub \in SeqToSet(arg)}

InitState(n, kind) ==
  /\ groups = {{c} : c \in 0 .. (n - 1)}
  /\ normalised = FALSE
  /\ ilist = O!IndexList(groups)
  /\ mat = O!MatOf(n, kind, groups, FALSE)

Init == /\ l = 1 /\ k = 1
        /\ TLCSet(1, 0)
        /\ (IF "BASE_FILE" \in DOMAIN IOEnv THEN TLCSet(7, JsonDeserialize(IOEnv.BASE_FILE)) ELSE TRUE)      \* kind "given"
        /\ IF Len(Log) = 0 THEN InitState(1, "small") ELSE InitState(Log[1].n, Log[1].kind)

(* successors Merge.tla allows for the logged operation *)
Allowed(n, kind) ==
  IF Op.op = "Merge"
  THEN {<<g, normalised>> : g \in O!MergeOutcomes(n, groups, JoinOf(Op.arg))}
  ELSE {<<{g \in groups : g \cap SeqToSet(Op.arg) = {}}, TRUE>>}

Matching(n, kind) == {s \in Allowed(n, kind) : O!IndexList(s[1]) = Op.ilist}

Clause(n, kind) ==
  IF Op.err # "" THEN "exception:" \o Op.err
  ELSE IF ~Op.exact THEN "non-integer entry"
  ELSE IF Matching(n, kind) = {} THEN "index list"
  ELSE IF \A s \in Matching(n, kind) : O!MatOf(n, kind, s[1], s[2]) # Op.mat THEN "matrix"
  ELSE "ok"

NextRecord ==
  /\ l' = l + 1 /\ k' = 1
  /\ TLCSet(1, l)
  /\ IF l + 1 <= Len(Log)
     THEN /\ groups' = {{c} : c \in 0 .. (Log[l + 1].n - 1)}
          /\ normalised' = FALSE
          /\ ilist' = O!IndexList(groups')
          /\ mat' = O!MatOf(Log[l + 1].n, Log[l + 1].kind, groups', FALSE)
     ELSE UNCHANGED <<groups, normalised, ilist, mat>>

Step ==
  /\ l <= Len(Log)
  /\ IF k > Len(Rec.ops) \/ groups = {}
     THEN NextRecord
     ELSE LET n == Rec.n
              kind == Rec.kind
              c == Clause(n, kind)
          IN IF c # "ok"
             THEN /\ PrintT(<<"REJECT", Rec.tid, c, k>>)
                  /\ NextRecord
             ELSE LET s == CHOOSE s \in Matching(n, kind) : O!MatOf(n, kind, s[1], s[2]) = Op.mat
                  IN /\ groups' = s[1]
                     /\ normalised' = s[2]
                     /\ ilist' = Op.ilist
                     /\ mat' = Op.mat
                     /\ l' = l /\ k' = k + 1

Spec == Init /\ [][Step]_vars

(* while a history is being followed the recorded state IS the spec state *)
Consistent == l <= Len(Log) =>
                 /\ ilist = O!IndexList(groups)
                 /\ mat = O!MatOf(Rec.n, Rec.kind, groups, normalised)

AllConsumed == TLCGet(1) = Len(Log)
=============================================================================
