--------------------------- MODULE Workflow_Trace ---------------------------
(***************************************************************************)
(* Growth G08, structure of the Snakemake rule files (workflow/run_grid,   *)
(* run_sqra, run_msm) as extracted from their text.  One record per        *)
(* workflow:                                                               *)
(*  [tid, file, rules <<[name, outs <<name>>, ins <<[rule, out]>>]>>,      *)
(*   needs <<[rule, art]>>]                                                *)
(* ins = every `rules.X.output.Y' reference (or literal path equal to an   *)
(* output path of another rule) in the rule's input section.               *)
(* Checked here: rule names unique, output names unique per rule, every    *)
(* reference resolves to a declared output, the dependency relation is     *)
(* acyclic.  (That the declared dependencies carry what each rule's        *)
(* computation needs is decided by Molgri_Trace on the derived trace.)     *)
(***************************************************************************)
EXTENDS Integers, Sequences, FiniteSets, TLC, Json, IOUtils

Log == JsonDeserialize(IOEnv.TRACE_FILE)
VARIABLE l
Rec == Log[l]
ToSet(s) == {s[i] : i \in 1 .. Len(s)}

RECURSIVE Reach(_, _, _)
Reach(E, S, k) == IF k = 0 THEN S ELSE Reach(E, S \cup {e[2] : e \in {x \in E : x[1] \in S}}, k - 1)

Clause(r) ==
  LET names == [i \in 1 .. Len(r.rules) |-> r.rules[i].name]
      N == ToSet(names)
      outsOf(n) == ToSet((CHOOSE x \in ToSet(r.rules) : x.name = n).outs)
      refs == UNION {{<<x.name, d[1], d[2]>> : d \in ToSet(x.ins)} : x \in ToSet(r.rules)}
      E == {<<t[2], t[1]>> : t \in refs}                 \* producer -> consumer
  IN IF r.err # "" THEN "exception:" \o r.err
     ELSE IF Cardinality(N) # Len(names) THEN "two rules with one name"
     ELSE IF \E x \in ToSet(r.rules) : Cardinality(ToSet(x.outs)) # Len(x.outs) THEN "a rule declares one output name twice"
     ELSE IF \E t \in refs : t[2] \notin N THEN "an input refers to a rule that does not exist"
     ELSE IF \E t \in refs : t[3] \notin outsOf(t[2]) THEN "an input refers to an output its rule does not declare"
     ELSE IF \E n \in N : n \in Reach(E, {e[2] : e \in {x \in E : x[1] = n}}, Cardinality(N)) THEN "the rule dependencies are cyclic"
     ELSE "ok"

Init == l = 1 /\ TLCSet(1, 0)
Step == /\ l <= Len(Log)
        /\ LET c == Clause(Rec) IN IF c = "ok" THEN TRUE ELSE PrintT(<<"REJECT", Rec.tid, c, 0>>)
        /\ TLCSet(1, l)
        /\ l' = l + 1
Spec == Init /\ [][Step]_l
AllConsumed == TLCGet(1) = Len(Log)
=============================================================================
