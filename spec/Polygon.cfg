SPECIFICATION Spec
CONSTANTS
  Fix = "repaired"
INVARIANT AreaIsShoelace
INVARIANT InputIsConvex
