SPECIFICATION Spec
INVARIANT Consistent
POSTCONDITION AllConsumed
