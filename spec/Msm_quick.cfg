SPECIFICATION Spec
CONSTANTS
  M = 3
  Lmax = 5
  TauMax = 6
  Bug = "none"
INVARIANT LoopInvariant
INVARIANT OperationalIsDeclarative
INVARIANT EntriesInUnitInterval
INVARIANT DetailedBalance
INVARIANT VisitedRowsSumToOne
INVARIANT ReversalInvariant
INVARIANT ShortTrajectoryIsZero
