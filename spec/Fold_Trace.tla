------------------------------ MODULE Fold_Trace ------------------------------
(***************************************************************************)
(* C04, code -> spec.  One record per rotation grid (algorithm, N):        *)
(*  [tid, n (= N), antiOK (double cover array is [G; -G]),                 *)
(*   geo <<[i, j, rank, areaId, distId, area6]>>  oracle, i < j over the   *)
(*        2N points, pairs sharing >= 1 Voronoi vertex; rank = dimension   *)
(*        of the span of the shared vertices (>= 3: a 2-dimensional face); *)
(*        distId = class of min(theta, pi - theta),                        *)
(*   adj <<[i,j]>>, borders <<[i,j,id]>>, dists <<[i,j,id]>>  the code's   *)
(*        default (folded, N x N) matrices in stored order, err,           *)
(*   oracle (FALSE: grid beyond the brute-force bound, geo empty),         *)
(*   dchk <<[i, j, distId, angleId]>> stored distance vs folded angle of   *)
(*        the two quaternions, positive (all stored borders/distances > 0)]*)
(*   optional fullAdj, sweptAdj, halfAdj <<[i,j]>> (+ ...Shape): the        *)
(*        adjacency getter with its options = the fold's intermediate      *)
(*        states (full-sphere matrix, row sweep, cut without sweep)        *)
(* The declarative fold is the one of Fold.tla: rotations i # j are        *)
(* adjacent iff R(i,j) or R(i, j+N); the border is the face area when      *)
(* exactly one of the two holds.                                           *)
(***************************************************************************)
EXTENDS Integers, Sequences, FiniteSets, TLC, Json, IOUtils

Log == JsonDeserialize(IOEnv.TRACE_FILE)
VARIABLE l
Rec == Log[l]
ToSet(s) == {s[i] : i \in 1 .. Len(s)}

Clause(r) ==
  LET N == r.n
      anti(i) == (i + N) % (2 * N)
      geo == TLCEval(ToSet(r.geo))
      faces == TLCEval({g \in geo : g[3] >= 3})
      tinyF == {g \in faces : g[6] <= 10}                                    \* face area below 1e-5: unconstrained
      R == TLCEval({<<g[1], g[2]>> : g \in faces} \cup {<<g[2], g[1]>> : g \in faces})
      Rt == {<<g[1], g[2]>> : g \in tinyF} \cup {<<g[2], g[1]>> : g \in tinyF}
      ord(p) == IF p[1] < p[2] THEN p ELSE <<p[2], p[1]>>
      info(p) == CHOOSE g \in faces : <<g[1], g[2]>> = ord(p)
      P1 == 0 .. (N - 1)
      closed == \A p \in R : <<anti(p[1]), anti(p[2])>> \in R
      DeclAdj == {p \in P1 \X P1 : p[1] # p[2] /\ (p \in R \/ <<p[1], anti(p[2])>> \in R)}
      unsure == {p \in P1 \X P1 : p \in Rt \/ <<p[1], anti(p[2])>> \in Rt}
      codeAdj == {<<p[1], p[2]>> : p \in ToSet(r.adj)}
      bPat == {<<p[1], p[2]>> : p \in ToSet(r.borders)}
      dPat == {<<p[1], p[2]>> : p \in ToSet(r.dists)}
      touching(p) == {q \in {p, <<p[1], anti(p[2])>>} : q \in R}
      (* the fold's intermediate states as the getter's options expose them (Fold.tla: M, the row sweep, the cut) *)
      P2 == 0 .. (2 * N - 1)
      Pairs(s) == {<<p[1], p[2]>> : p \in ToSet(s)}
      unsure2 == {p \in P2 \X P2 : p \in Rt \/ <<p[1], anti(p[2])>> \in Rt}
      Swept == {p \in P2 \X P2 : p \in R \/ <<p[1], anti(p[2])>> \in R}
      OptClause ==
        IF "fullAdj" \notin DOMAIN r THEN "ok"
        ELSE IF r.fullAdjShape # <<2 * N, 2 * N>> \/ r.sweptAdjShape # <<2 * N, 2 * N>> \/ r.halfAdjShape # <<N, N>> THEN "an option form of the adjacency has the wrong shape"
        ELSE IF (Pairs(r.fullAdj) \ Rt) # (R \ Rt) THEN "the double-cover matrix (only_upper=False, include_opposing_neighbours=False) is not 'the two cells share a 2-dimensional face'"
        ELSE IF (Pairs(r.halfAdj) \ Rt) # ({p \in P1 \X P1 : p \in R} \ Rt) THEN "the half matrix without opposing neighbours is not the face relation among the upper points"
        ELSE IF (Pairs(r.sweptAdj) \ unsure2) # (Swept \ unsure2) THEN "the swept double-cover matrix is not 'touches q_j or -q_j' row by row"
        ELSE "ok"
  IN IF r.err # "" THEN "exception:" \o r.err
     ELSE IF ~r.antiOK THEN "double cover is not [G; -G]"
     ELSE IF ~closed THEN "ORACLE relation is not closed under the antipode map"
     ELSE IF \E p \in codeAdj : p[1] = p[2] THEN "diagonal entry"
     ELSE IF \E p \in codeAdj : <<p[2], p[1]>> \notin codeAdj THEN "adjacency not symmetric"
     ELSE IF bPat # codeAdj \/ dPat # codeAdj THEN "the three matrices differ in pattern"
     ELSE IF ~r.oracle THEN                  \* larger grids without the brute-force complex: structure and the folded angles only
          (IF \E d \in ToSet(r.dchk) : d[3] # d[4] THEN "distance is not the sign-folded quaternion angle"
           ELSE IF ~r.positive THEN "a border or distance entry is not positive" ELSE "ok")
     ELSE IF (codeAdj \ unsure) # (DeclAdj \ unsure) THEN "adjacency is not 'cells of {q,-q} share a 2-dimensional face'"
     ELSE IF \E d \in ToSet(r.dists) : <<d[1], d[2]>> \notin unsure /\ d[3] # info(CHOOSE q \in touching(<<d[1], d[2]>>) : TRUE)[5]
          THEN "distance is not the sign-folded quaternion angle"
     ELSE IF \E b \in ToSet(r.borders) : <<b[1], b[2]>> \notin unsure /\ Cardinality(touching(<<b[1], b[2]>>)) = 1
                                          /\ b[3] # info(CHOOSE q \in touching(<<b[1], b[2]>>) : TRUE)[4]
          THEN "border is not the area of the shared face"
     ELSE OptClause

Init == l = 1 /\ TLCSet(1, 0)
Step == /\ l <= Len(Log)
        /\ LET c == Clause(Rec) IN IF c = "ok" THEN TRUE ELSE PrintT(<<"REJECT", Rec.tid, c, 0>>)
        /\ TLCSet(1, l)
        /\ l' = l + 1
Spec == Init /\ [][Step]_l
AllConsumed == TLCGet(1) = Len(Log)
=============================================================================
