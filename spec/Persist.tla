------------------------------- MODULE Persist -------------------------------
(***************************************************************************)
(* C20 (grids) and the artefact store of the pipeline (DESIGN §5).         *)
(* Artefacts (full array, volumes, adjacency, borders, distances) are      *)
(* written to files and read back.  The content of an artefact is          *)
(* abstracted to a digest id (shape, dtype, values, and for sparse         *)
(* matrices format + index arrays in stored order), interned by the        *)
(* harness.  Property: whatever is read is what was last written.          *)
(***************************************************************************)
EXTENDS Integers, Sequences, FiniteSets, TLC

CONSTANTS Arts, Digests, Bug     \* Bug: "none" | "readStale" | "writeSwaps"

VARIABLES store, cache, last, nreads
vars == <<store, cache, last, nreads>>
Missing == -1

Init == /\ store = [a \in Arts |-> Missing] /\ cache = [a \in Arts |-> Missing]
        /\ last = <<"none", Missing>> /\ nreads = 0

Write(a, d) == /\ store' = [store EXCEPT ![IF Bug = "writeSwaps" /\ a = "borders" THEN "distances" ELSE a] = d]
               /\ UNCHANGED <<cache, last, nreads>>
(* a read returns the stored content; the modelled slip serves a value remembered from an earlier read *)
Read(a) == /\ store[a] # Missing
           /\ LET v == IF Bug = "readStale" /\ cache[a] # Missing THEN cache[a] ELSE store[a]
              IN last' = <<a, v>> /\ cache' = [cache EXCEPT ![a] = v]
           /\ nreads' = nreads + 1
           /\ UNCHANGED store
Next == (\E a \in Arts, d \in Digests : Write(a, d)) \/ (\E a \in Arts : Read(a))
Spec == Init /\ [][Next]_vars
Bounded == nreads <= 3

(* a read returns the digest last written under that name *)
ReadIsWrite == [][ nreads' = nreads + 1 => last'[2] = store[last'[1]] ]_vars
WriteIsLocal == [][ \A a, b \in Arts : (store'[a] # store[a] /\ store'[b] # store[b]) => a = b ]_vars
=============================================================================
