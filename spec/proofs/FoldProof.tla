----------------------------- MODULE FoldProof -----------------------------
(***************************************************************************)
(* Unbounded companion of Fold.tla (C04): for EVERY N >= 1 the declarative *)
(* fold of a symmetric, antipodally closed relation is symmetric.          *)
(* Checked with TLAPS (tlapm); not part of any claim in MANIFEST.json.     *)
(***************************************************************************)
EXTENDS Integers, TLAPS

CONSTANT N
ASSUME NPos == N \in Nat /\ N >= 1

P2 == 0 .. (2 * N - 1)
P1 == 0 .. (N - 1)
anti(i) == IF i < N THEN i + N ELSE i - N        \* = (i + N) mod 2N on P2

CONSTANT R
ASSUME RType == R \subseteq P2 \X P2
ASSUME RSym == \A i, j \in P2 : <<i, j>> \in R => <<j, i>> \in R
ASSUME RAnti == \A i, j \in P2 : <<i, j>> \in R => <<anti(i), anti(j)>> \in R

Folded(i, j) == <<i, j>> \in R \/ <<i, anti(j)>> \in R

LEMMA AntiType == \A i \in P2 : anti(i) \in P2
  BY NPos DEF P2, anti

LEMMA AntiInvolution == \A i \in P2 : anti(anti(i)) = i
  BY NPos DEF P2, anti

THEOREM FoldSymmetric == \A i, j \in P1 : Folded(i, j) => Folded(j, i)
<1> SUFFICES ASSUME NEW i \in P1, NEW j \in P1, Folded(i, j) PROVE Folded(j, i)
  OBVIOUS
<1>0. i \in P2 /\ j \in P2
  BY NPos DEF P1, P2
<1>1. CASE <<i, j>> \in R
  BY <1>0, <1>1, RSym DEF Folded
<1>2. CASE <<i, anti(j)>> \in R
  <2>1. anti(j) \in P2 /\ anti(i) \in P2
    BY <1>0, AntiType
  <2>2. <<anti(i), anti(anti(j))>> \in R
    BY <1>0, <1>2, <2>1, RAnti
  <2>3. <<anti(i), j>> \in R
    BY <1>0, <2>2, AntiInvolution
  <2>4. <<j, anti(i)>> \in R
    BY <1>0, <2>1, <2>3, RSym
  <2> QED BY <2>4 DEF Folded
<1> QED BY <1>1, <1>2 DEF Folded
=============================================================================
