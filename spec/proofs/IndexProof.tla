----------------------------- MODULE IndexProof -----------------------------
(***************************************************************************)
(* Unbounded companion of FullIndex.tla (C09): for EVERY n_b >= 1 the cell  *)
(* index n = p*n_b + b and the pair (n div n_b, n mod n_b) are inverse to   *)
(* each other.  Checked with TLAPS; not part of any claim in MANIFEST.json. *)
(***************************************************************************)
EXTENDS Integers, TLAPS

(* (the converse, (p*n_b + b) div n_b = p, is non-linear and is not discharged by the SMT back ends within the time
   limit; it is covered for n_b <= 4 by the exhaustive TLC model FullIndex.tla) *)
THEOREM ComposeOfDivMod ==
  \A nB \in Nat \ {0} : \A n \in Nat :
      (n \div nB) * nB + (n % nB) = n /\ (n % nB) \in 0 .. (nB - 1) /\ (n \div nB) \in Nat
  OBVIOUS
=============================================================================
