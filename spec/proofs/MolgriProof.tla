----------------------------- MODULE MolgriProof -----------------------------
(***************************************************************************)
(* Unbounded companion of Molgri.tla (C14 / C20 / C09 meet there): for ANY  *)
(* set of grid specifications the three store invariants of the pipeline    *)
(* model are inductive.  TLC checks them for two specifications; this       *)
(* proof removes the bound.  Not part of any claim in MANIFEST.json.        *)
(***************************************************************************)
EXTENDS Molgri, TLAPS

ASSUME NoBug == Bug = "none"
ASSUME SpecsNotZero == 0 \notin Specs

Orders == {"none", "grid", "rotation-major", "frames"}
Tags == [spec : Specs \cup {0}, order : Orders]
TypeOK == /\ cur \in Specs
          /\ mem \in [Arts -> Tags]
          /\ store \in [Specs -> [Arts -> Tags]]
          /\ good \in BOOLEAN

Inv == TypeOK /\ OneCellOrder /\ DirectoriesArePure /\ MemoryIsCurrent

LEMMA NoneIsTag == None \in Tags
  BY DEF None, Tags, Orders

LEMMA InitInv == Init => Inv
  <1> SUFFICES ASSUME Init PROVE Inv OBVIOUS
  <1>1. TypeOK BY NoneIsTag DEF Init, TypeOK
  <1>2. OneCellOrder BY DEF Init, OneCellOrder, Have
  <1>3. DirectoriesArePure BY DEF Init, DirectoriesArePure, Have
  <1>4. MemoryIsCurrent BY DEF Init, MemoryIsCurrent, Have
  <1> QED BY <1>1, <1>2, <1>3, <1>4 DEF Inv

LEMMA StepInv == Inv /\ [Next]_vars => Inv'
  <1> SUFFICES ASSUME Inv, [Next]_vars PROVE Inv' OBVIOUS
  <1> USE NoBug, SpecsNotZero DEF Inv, TypeOK, OneCellOrder, DirectoriesArePure, MemoryIsCurrent, Have, Tag, None, Tags, Orders, Arts, GridArts
  <1>1. ASSUME NEW s \in Specs, NewSpec(s) PROVE Inv' BY <1>1 DEF NewSpec
  <1>2. CASE BuildGrid BY <1>2 DEF BuildGrid
  <1>3. ASSUME NEW a \in FileArts, Write(a) PROVE Inv' BY <1>3 DEF Write, FileArts
  <1>4. ASSUME NEW a \in FileArts, Read(a) PROVE Inv' BY <1>4 DEF Read, FileArts
  <1>5. CASE GenPT BY <1>5 DEF GenPT
  <1>6. CASE ComputeEnergy BY <1>6 DEF ComputeEnergy
  <1>7. CASE BuildRate BY <1>7 DEF BuildRate, RateInputs
  <1>8. CASE Decompose BY <1>8 DEF Decompose
  <1>9. CASE Simulate BY <1>9 DEF Simulate
  <1>10. CASE Assign BY <1>10 DEF Assign
  <1>11. CASE BuildMsm BY <1>11 DEF BuildMsm
  <1>12. CASE UNCHANGED vars BY <1>12 DEF vars
  <1>13. CASE NewProcess BY <1>13 DEF NewProcess
  <1> QED BY <1>1, <1>2, <1>3, <1>4, <1>5, <1>6, <1>7, <1>8, <1>9, <1>10, <1>11, <1>12, <1>13 DEF Next

THEOREM Safety == Spec => []Inv
  BY InitInv, StepInv, PTL DEF Spec
=============================================================================
