------------------------------ MODULE QuatProof ------------------------------
(***************************************************************************)
(* Unbounded companion of Quat.tla (growth G04; C07's "canonical half"):    *)
(* for EVERY non-zero integer 4-vector - not only the 24 Hurwitz units TLC  *)
(* enumerates - exactly one of q and -q is canonical ("first non-zero       *)
(* coordinate positive"), the canonical representative is canonical, is the *)
(* same for q and -q, and represents the same rotation.  Upper4 is the      *)
(* unrolled form of Quat!Upper for tuples of length 4 (TLC checks that the  *)
(* two agree on Q24: invariant UpperIsUnrolled of the G04 configuration).   *)
(* Checked with TLAPS; not part of any claim in MANIFEST.json.              *)
(***************************************************************************)
EXTENDS Integers, TLAPS

Vec == Int \X Int \X Int \X Int
Neg(q) == <<-q[1], -q[2], -q[3], -q[4]>>
Zero == <<0, 0, 0, 0>>
Upper4(q) == \/ q[1] > 0
             \/ q[1] = 0 /\ q[2] > 0
             \/ q[1] = 0 /\ q[2] = 0 /\ q[3] > 0
             \/ q[1] = 0 /\ q[2] = 0 /\ q[3] = 0 /\ q[4] > 0
Canon(q) == IF Upper4(q) THEN q ELSE Neg(q)
SameRot(p, q) == p = q \/ p = Neg(q)

THEOREM NegIsVec == \A q \in Vec : Neg(q) \in Vec
  BY DEF Vec, Neg

THEOREM ExactlyOneIsCanonical == \A q \in Vec : q # Zero => (Upper4(q) <=> ~Upper4(Neg(q)))
  BY DEF Vec, Neg, Zero, Upper4

THEOREM ZeroIsInTheBottomHalf == ~Upper4(Zero) /\ ~Upper4(Neg(Zero))
  BY DEF Zero, Neg, Upper4

THEOREM CanonIsCanonical == \A q \in Vec : q # Zero => Upper4(Canon(q))
  BY DEF Vec, Neg, Zero, Upper4, Canon

THEOREM CanonIgnoresSign == \A q \in Vec : q # Zero => Canon(Neg(q)) = Canon(q)
  <1> SUFFICES ASSUME NEW q \in Vec, q # Zero PROVE Canon(Neg(q)) = Canon(q) OBVIOUS
  <1>1. Neg(Neg(q)) = q BY DEF Vec, Neg
  <1>2. Upper4(q) <=> ~Upper4(Neg(q)) BY DEF Vec, Neg, Zero, Upper4
  <1> QED BY <1>1, <1>2 DEF Canon

THEOREM CanonIsTheSameRotation == \A q \in Vec : SameRot(Canon(q), q)
  BY DEF Canon, SameRot, Vec, Neg
=============================================================================
