SPECIFICATION Spec
POSTCONDITION AllConsumed
