-------------------------------- MODULE Orca --------------------------------
(***************************************************************************)
(* Growth G09.  The ORCA branch of ComputeEnergy (workflow run_sqra, rules *)
(* orca_SP_run / orca_collect_energies; molgri/molecules/orca_runner.py):  *)
(* one .out file per pseudotrajectory frame, collected into energy.csv.    *)
(* A file is a sequence of lines; kinds                                    *)
(*   "final" v  - "FINAL SINGLE POINT ENERGY  v"  (an optimisation prints  *)
(*                one per step: the LAST one counts)                       *)
(*   "time"     - "TOTAL RUN TIME: ..."                                    *)
(*   "indent" v - the same text as "final" but not at the line start       *)
(*                (the extraction anchors at the line start)               *)
(*   "other"                                                               *)
(* extract_energy_time_orca_output = value of the last "final" line, NaN   *)
(* (here 0) when there is none.  read_important_stuff_into_csv keeps ONE   *)
(* ROW PER FILE IN LIST ORDER - a failed frame is a NaN row, never a       *)
(* missing row, otherwise every later energy would belong to another cell  *)
(* (OneCellOrder of Molgri.tla).                                           *)
(***************************************************************************)
EXTENDS Integers, Sequences, FiniteSets, TLC

CONSTANTS Vals, MaxLines, MaxFiles, Bug      \* Bug: "none" | "firstFinal" | "dropFailed" | "unanchored"
NaN == 0
Lines == [kind : {"final", "indent"}, v : Vals] \cup {[kind |-> "time", v |-> NaN], [kind |-> "other", v |-> NaN]}

Counts(ln) == ln.kind = "final" \/ (Bug = "unanchored" /\ ln.kind = "indent")
RECURSIVE LastFinal(_), FirstFinal(_)
LastFinal(f) == IF f = <<>> THEN NaN ELSE IF Counts(f[Len(f)]) THEN f[Len(f)].v ELSE LastFinal(SubSeq(f, 1, Len(f) - 1))
FirstFinal(f) == IF f = <<>> THEN NaN ELSE IF Counts(Head(f)) THEN Head(f).v ELSE FirstFinal(Tail(f))
Extract(f) == IF Bug = "firstFinal" THEN FirstFinal(f) ELSE LastFinal(f)

(* operational collection: one data frame per file, concatenated *)
RECURSIVE Collect(_)
Collect(files) == IF files = <<>> THEN <<>>
                  ELSE LET e == Extract(Head(files))
                       IN (IF Bug = "dropFailed" /\ e = NaN THEN <<>> ELSE <<e>>) \o Collect(Tail(files))

(* declarative meaning *)
Finals(f) == {i \in 1 .. Len(f) : f[i].kind = "final"}
Max(S) == CHOOSE x \in S : \A y \in S : y <= x
EnergyOf(f) == IF Finals(f) = {} THEN NaN ELSE f[Max(Finals(f))].v

VARIABLES files, table
vars == <<files, table>>
Files == UNION {[1 .. n -> Lines] : n \in 0 .. MaxLines}
Init == files = <<>> /\ table = <<>>
AddFile(f) == Len(files) < MaxFiles /\ files' = Append(files, f) /\ table' = Collect(files')
Next == \E f \in Files : AddFile(f)
Spec == Init /\ [][Next]_vars

OneRowPerFrame == Len(table) = Len(files)
RowIsFrameEnergy == \A k \in 1 .. Len(files) : k <= Len(table) => table[k] = EnergyOf(files[k])
=============================================================================
