SPECIFICATION Spec
POSTCONDITION AllConsumed
