--------------------------------- MODULE Msm ---------------------------------
(***************************************************************************)
(* C12.  MSM.get_one_tau_transition_matrix as a state machine:             *)
(*   Init       chooses the trajectory, the lag and the windowing mode;    *)
(*   Window     is one iteration of the generator `window`                 *)
(*              (range(0, L - tau, step), slice [k : k+tau+1 : tau], NaN   *)
(*              windows dropped, the two symmetrising += 1);               *)
(*   Normalise  divides every row by its sum (rows with sum 0 stay 0).     *)
(* Invariants compare the operational counts with the declarative          *)
(* definition of MsmOps at every step (a loop invariant) and state the     *)
(* properties of the result.                                               *)
(***************************************************************************)
EXTENDS MsmOps, TLC

CONSTANTS M,        \* cells are 0..M-1
          Lmax,     \* trajectories of length 0..Lmax
          TauMax,   \* lags 1..TauMax
          Bug       \* "none" | "pairShort" | "nanIsZero" | "asymmetric" | "dropLast"

Cells == 0 .. (M - 1)
Sym0 == [i \in Cells |-> [j \in Cells |-> 0]]

VARIABLES x, tau, noncorr,   \* inputs
          k,                 \* generator position (0-based start of the next window)
          cnt,               \* symmetrised count matrix accumulated so far
          phase              \* "loop" | "counted" | "done"
vars == <<x, tau, noncorr, k, cnt, phase>>

Trajs == UNION {[1 .. L -> Cells \cup {NaN}] : L \in 0 .. Lmax}

Init == /\ x \in Trajs
        /\ tau \in 1 .. TauMax
        /\ noncorr \in BOOLEAN
        /\ k = 0
        /\ cnt = Sym0
        /\ phase = "loop"

Step == StepOf(tau, noncorr)
Limit == IF Bug = "dropLast" THEN Len(x) - tau - 1 ELSE Len(x) - tau

Second(kk) == IF Bug = "pairShort" THEN kk + tau - 1 ELSE kk + tau

Bump(c, a, b) == IF a = b THEN [c EXCEPT ![a][a] = @ + 2]
                 ELSE IF Bug = "asymmetric" THEN [c EXCEPT ![a][b] = @ + 1]
                 ELSE [c EXCEPT ![a][b] = @ + 1, ![b][a] = @ + 1]

Val(v) == IF Bug = "nanIsZero" /\ v = NaN THEN 0 ELSE v

Window == /\ phase = "loop"
          /\ k < Limit
          /\ Second(k) + 1 <= Len(x)            \* the slice has two elements
          /\ LET a == Val(x[k + 1])
                 b == Val(x[Second(k) + 1])
             IN cnt' = IF a = NaN \/ b = NaN THEN cnt ELSE Bump(cnt, a, b)
          /\ k' = k + Step
          /\ UNCHANGED <<x, tau, noncorr, phase>>

EndLoop == /\ phase = "loop"
           /\ ~(k < Limit /\ Second(k) + 1 <= Len(x))
           /\ phase' = "counted"
           /\ UNCHANGED <<x, tau, noncorr, k, cnt>>

Normalise == /\ phase = "counted"
             /\ phase' = "done"
             /\ UNCHANGED <<x, tau, noncorr, k, cnt>>

Next == Window \/ EndLoop \/ Normalise
Spec == Init /\ [][Next]_vars

-----------------------------------------------------------------------------
RowSum(i) == MapThenSumSet(LAMBDA j : cnt[i][j], Cells)

(* loop invariant: after the generator has passed position k the accumulated matrix is the
   declarative symmetrised count restricted to window starts below k *)
PartialCount(i, j) ==
  LET S == {s \in Starts(Len(x), tau, noncorr) : s < k}
      c(a, b) == Cardinality({s \in S : x[s + 1] = a /\ x[s + tau + 1] = b})
  IN c(i, j) + c(j, i)
LoopInvariant == phase = "loop" => \A i, j \in Cells : cnt[i][j] = PartialCount(i, j)

(* the operational result is the declarative definition *)
OperationalIsDeclarative == phase # "loop" => cnt = SymMatrix(x, tau, noncorr, M)

(* properties of the transition matrix T_ij = cnt_ij / RowSum(i), stated without division *)
EntriesInUnitInterval == phase = "done" => \A i, j \in Cells : 0 <= cnt[i][j] /\ cnt[i][j] <= RowSum(i)
DetailedBalance == phase = "done" => \A i, j \in Cells : cnt[i][j] = cnt[j][i]   \* r_i T_ij = r_j T_ji
VisitedRowsSumToOne == phase = "done" => \A i \in Cells : RowSum(i) = RowTotal(x, tau, noncorr, M, i)
ReversalInvariant == (phase = "done" /\ ~noncorr) => cnt = SymMatrix(Reverse(x), tau, noncorr, M)
(* growth (DESIGN §5, workflow run_msm): the visit counts are stationary for T: sum_i r_i T_ij = r_j *)
StationaryIsVisitCounts == phase = "done" => \A j \in Cells : MapThenSumSet(LAMBDA i : cnt[i][j], Cells) = RowSum(j)
DefinitionsAgree == phase = "loop" /\ k = 0 => SymMatrixIsSym(x, tau, noncorr, M)
ShortTrajectoryIsZero == (phase = "done" /\ Len(x) <= tau) => cnt = Sym0
=============================================================================
