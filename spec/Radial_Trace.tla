----------------------------- MODULE Radial_Trace -----------------------------
(***************************************************************************)
(* C16, spec -> code -> spec.  One record per string handed to the real    *)
(* TranslationParser:                                                      *)
(*  [tid, req (abstract request, decimals in 10^-3 nm), text, err,         *)
(*   d5, inc5, bet5 (distances, increments, shell boundaries in 10^-5 A,   *)
(*   rounded), incErr, hash (grid identifier), bits (id of the bit pattern *)
(*   of the distance array)]                                               *)
(* State: the identifier seen so far for every bit pattern.                *)
(***************************************************************************)
EXTENDS Integers, Sequences, FiniteSets, TLC, Json, IOUtils

O == INSTANCE RadialOps
Log == JsonDeserialize(IOEnv.TRACE_FILE)
VARIABLES l, hashOf
vars == <<l, hashOf>>
Rec == Log[l]
Abs(x) == IF x < 0 THEN -x ELSE x

(* observed value v (10^-5 A) equals the rational q (10^-3 nm) times ten, within one unit *)
Near(v, q) == Abs(v * q[2] - q[1] * 1000) <= q[2]
SeqNear(vs, qs) == Len(vs) = Len(qs) /\ \A i \in 1 .. Len(qs) : Near(vs[i], qs[i])

Clause(r) ==
  LET want == TLCEval(O!Intended(r.req)) IN
  IF O!Rejected(r.req) THEN (IF r.err = "" THEN "negative distance accepted" ELSE "ok")
  ELSE IF r.err # "" THEN "exception:" \o r.err
  ELSE IF Len(r.d5) # Len(want) THEN "number of radii"
  ELSE IF ~SeqNear(r.d5, want) THEN "distances are not the intended values times ten in ascending order"
  ELSE IF ~O!StrictlyIncreasingPositive(want) THEN "ok"
  ELSE IF r.incErr # "" THEN "exception in increments/boundaries:" \o r.incErr
  ELSE IF ~SeqNear(r.inc5, O!Increments(want)) THEN "increments"
  ELSE IF ~SeqNear(r.bet5, O!Boundaries(want)) THEN "shell boundaries"
  ELSE IF r.bits \in DOMAIN hashOf /\ hashOf[r.bits] # r.hash THEN "identifier depends on the syntax, not only on the distances"
  ELSE "ok"

Init == l = 1 /\ hashOf = <<>> /\ TLCSet(1, 0)
Step == /\ l <= Len(Log)
        /\ LET c == Clause(Rec) IN IF c = "ok" THEN TRUE ELSE PrintT(<<"REJECT", Rec.tid, c, 0>>)
        /\ hashOf' = IF Rec.err = "" /\ Rec.bits \notin DOMAIN hashOf THEN hashOf @@ (Rec.bits :> Rec.hash) ELSE hashOf
        /\ TLCSet(1, l)
        /\ l' = l + 1
Spec == Init /\ [][Step]_vars
AllConsumed == TLCGet(1) = Len(Log)
=============================================================================
