------------------------------ MODULE Xvg_Trace ------------------------------
(***************************************************************************)
(* C20 (energy tables), code -> spec.  One record per xvg file that was    *)
(* written by the driver and read by the real EnergyReader:                *)
(*  [tid, lines (the file, line by line, as Xvg.tla line records; data     *)
(*   values in integer micro-units), names, rows, single: [col, values],   *)
(*   csvEqual, exact, err]                                                 *)
(***************************************************************************)
EXTENDS Integers, Sequences, FiniteSets, TLC, Json, IOUtils

X == INSTANCE Xvg WITH MaxHash <- 0, MaxAt <- 0, MaxLegends <- 0, MaxRows <- 0, Bug <- "none",
                       nh <- 0, na <- 0, legendPos <- {}, nrows <- 0, phase <- ""
Log == JsonDeserialize(IOEnv.TRACE_FILE)
VARIABLE l
Rec == Log[l]

ColIndex(names, c) == CHOOSE i \in 1 .. Len(names) : names[i] = c

Clause(r) ==
  LET names == X!DeclNames(r.lines)
      rows == X!DeclRows(r.lines)
  IN IF ~X!InEnvelope(r.lines) THEN "ok"            \* the statement only speaks about the envelope
     ELSE IF r.err # "" THEN "exception:" \o r.err
     ELSE IF r.names # names THEN "column names / order"
     ELSE IF ~r.exact THEN "value not read back exactly"
     ELSE IF Len(r.rows) # Len(rows) THEN "number of rows"
     ELSE IF r.rows # rows THEN "row values / order"
     ELSE IF r.single.values # [j \in 1 .. Len(rows) |-> rows[j][ColIndex(names, r.single.col)]] THEN "single column"
     ELSE IF ~r.csvEqual THEN "csv round trip"
     ELSE "ok"

Init == l = 1 /\ TLCSet(1, 0)
Step == /\ l <= Len(Log)
        /\ LET c == Clause(Rec) IN IF c = "ok" THEN TRUE ELSE PrintT(<<"REJECT", Rec.tid, c, 0>>)
        /\ TLCSet(1, l)
        /\ l' = l + 1
Spec == Init /\ [][Step]_l
AllConsumed == TLCGet(1) = Len(Log)
=============================================================================
