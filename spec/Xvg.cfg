SPECIFICATION Spec
CONSTANTS
  MaxHash = 14
  MaxAt = 14
  MaxLegends = 3
  MaxRows = 2
  Bug = "none"
INVARIANT ReaderCorrectInEnvelope
INVARIANT TooManyHashGivesGarbage
INVARIANT ShortHeaderLosesRows
