SPECIFICATION TraceSpec
CONSTANTS
  Kind = "ico"
  MaxLevel = 9
  Bug = "none"
INVARIANT NodesAreLattice
POSTCONDITION AllConsumed
