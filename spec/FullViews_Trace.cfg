SPECIFICATION Spec
POSTCONDITION AllConsumed
