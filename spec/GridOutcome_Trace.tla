-------------------------- MODULE GridOutcome_Trace --------------------------
(***************************************************************************)
(* C19, code -> spec.  One record per (configuration, getter order):       *)
(*  [tid, cfg: [nB,nO,nT,cartesian], events: << [g, kind, cls, shape] >>]  *)
(* The trace spec steps through the events of a record (state: outcome of  *)
(* the first call of each getter) and checks Allowed and getter purity.    *)
(***************************************************************************)
EXTENDS Integers, Sequences, FiniteSets, TLC, Json, IOUtils

Log == JsonDeserialize(IOEnv.TRACE_FILE)
G == INSTANCE GridOutcome WITH MaxB <- 0, MaxO <- 0, MaxT <- 0, Bug <- "none", cfg <- 0, built <- FALSE, results <- 0

VARIABLES l, k, seen     \* record, event index, getter -> first outcome
vars == <<l, k, seen>>
Rec == Log[l]
Ev == Rec.events[k]
Outcome(e) == IF e.kind = "Ok" THEN G!Ok(e.shape) ELSE G!Err(e.cls)
Empty == [g \in G!Getters |-> G!None]

Clause ==
  IF Outcome(Ev) \notin G!Allowed(Rec.cfg, Ev.g)
  THEN (IF Ev.kind = "Ok" THEN "wrong shape" ELSE "internal error " \o Ev.cls)
  ELSE IF seen[Ev.g] # G!None /\ seen[Ev.g] # Outcome(Ev) THEN "getter not pure"
  ELSE "ok"

Init == l = 1 /\ k = 1 /\ seen = Empty /\ TLCSet(1, 0)
Step == /\ l <= Len(Log)
        /\ IF k > Len(Rec.events)
           THEN /\ l' = l + 1 /\ k' = 1 /\ seen' = Empty /\ TLCSet(1, l)
           ELSE /\ LET c == Clause IN IF c = "ok" THEN TRUE ELSE PrintT(<<"REJECT", Rec.tid, c, k>>)
                /\ seen' = IF seen[Ev.g] = G!None THEN [seen EXCEPT ![Ev.g] = Outcome(Ev)] ELSE seen
                /\ k' = k + 1 /\ l' = l
Spec == Init /\ [][Step]_vars
AllConsumed == TLCGet(1) = Len(Log)
=============================================================================
