---------------------------- MODULE Cartesian_Trace ----------------------------
(***************************************************************************)
(* C06, code -> spec.  Two kinds of records.                                *)
(*  Poly  [ccw, flat (a planar convex lattice polygon, counter-clockwise    *)
(*         3D by an integer affine map, vertices in the order handed to the *)
(*         implementation), area2want, area2got6 (twice the area returned   *)
(*         by order_points + get_polygon_area, fixed point 1e-6), err]      *)
(*         area2want is computed by the spec's own shoelace (Polygon.tla)   *)
(*         from the 2D pre-image `flat` and the integer scale of the map.   *)
(*  Grid  [n, vol <<id>>, ovol <<id>>, bounded <<bool>>, volPositive,       *)
(*         adj <<[i,j]>>, borders <<[i,j,id]>>, dists <<[i,j,id]>>,         *)
(*         faces <<[i,j,areaId,distId,area9]>> (oracle, i<j), entryPositive]*)
(***************************************************************************)
EXTENDS Integers, Sequences, FiniteSets, TLC, Json, IOUtils

P == INSTANCE Polygon WITH Fix <- "repaired", poly <- <<>>, perm <- <<>>, area2 <- 0
Log == JsonDeserialize(IOEnv.TRACE_FILE)
VARIABLE l
Rec == Log[l]
ToSet(s) == {s[i] : i \in 1 .. Len(s)}
Abs(x) == IF x < 0 THEN -x ELSE x

PolyClause(r) ==
  LET ccw == [i \in 1 .. Len(r.ccw) |-> <<r.ccw[i][1], r.ccw[i][2]>>]          \* the polygon, counter-clockwise
      flat == [i \in 1 .. Len(r.flat) |-> <<r.flat[i][1], r.flat[i][2]>>]       \* the same vertices in the order handed over
      want6 == P!Area2(ccw) * r.scale6           \* twice the true area of the embedded polygon, 1e-6 units
  IN IF ~P!ConvexCCW(ccw) \/ ToSet(flat) # ToSet(ccw) \/ Len(flat) # Len(ccw) THEN "HARNESS: not a convex polygon / not a permutation"
     ELSE IF r.err # "" THEN "exception:" \o r.err
     ELSE IF Abs(r.area2got6 - want6) > 10 + want6 \div 1000000 THEN "polygon area is not the area of the convex polygon"
     ELSE "ok"

GridClause(r) ==
  LET A == {<<p[1], p[2]>> : p \in ToSet(r.adj)}
      B == {<<p[1], p[2], p[3]>> : p \in ToSet(r.borders)}
      D == {<<p[1], p[2], p[3]>> : p \in ToSet(r.dists)}
      F == ToSet(r.faces)
      face(i, j) == {f \in F : f[1] = (IF i < j THEN i ELSE j) /\ f[2] = (IF i < j THEN j ELSE i)}
      solid(i, j) == r.bounded[i + 1] /\ r.bounded[j + 1]
  IN IF r.err # "" THEN r.err
     ELSE IF Len(r.vol) # r.n THEN "number of volumes"
     ELSE IF ~r.volPositive THEN "a cell volume is not positive (open Euclidean cell)"
     ELSE IF \E i \in 1 .. r.n : r.bounded[i] /\ r.vol[i] # r.ovol[i] THEN "volume is not the volume of the Euclidean Voronoi cell"
     ELSE IF {<<b[1], b[2]>> : b \in B} # A \/ {<<d[1], d[2]>> : d \in D} # A THEN "borders / distances are not on the adjacency pattern"
     ELSE IF \E b \in B : <<b[2], b[1], b[3]>> \notin B THEN "borders not symmetric"
     ELSE IF \E d \in D : <<d[2], d[1], d[3]>> \notin D THEN "distances not symmetric"
     ELSE IF ~r.entryPositive THEN "a border or distance entry is not strictly positive"
     ELSE IF \E b \in B : solid(b[1], b[2]) /\ (face(b[1], b[2]) = {} \/ \E f \in face(b[1], b[2]) : f[5] > 1000 /\ f[3] # b[3])
          THEN "border is not the area of the face shared by the two Euclidean cells"
     ELSE IF \E d \in D : \E f \in face(d[1], d[2]) : f[4] # d[3] THEN "distance is not the Euclidean distance of the two grid points"
     ELSE "ok"

Init == l = 1 /\ TLCSet(1, 0)
Step == /\ l <= Len(Log)
        /\ LET c == IF Rec.kind = "Poly" THEN PolyClause(Rec) ELSE GridClause(Rec)
           IN IF c = "ok" THEN TRUE ELSE PrintT(<<"REJECT", Rec.tid, c, 0>>)
        /\ TLCSet(1, l)
        /\ l' = l + 1
Spec == Init /\ [][Step]_l
AllConsumed == TLCGet(1) = Len(Log)
=============================================================================
