SPECIFICATION Spec
CONSTANTS
  MaxT = 4
  MaxO = 4
  MaxB = 4
  MaxIdx = 8
  Bug = "none"
INVARIANT RowOrder
INVARIANT Bijection
INVARIANT HelpersAreDivMod
INVARIANT DecomposeIsIdentity
