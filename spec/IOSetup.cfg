SPECIFICATION Spec
CONSTANTS
  Examples <- ExamplesSmall
  UserIds = {1, 7}
  UseFolders = {"input", "output/data/pt_files", "experiments"}
  UseRoots = {"output", "input", "output/data/pt_files"}
  MaxSteps = 6
  Bug = "none"
INVARIANT AfterSetupEverythingIsThere
INVARIANT FilesLieInExistingFolders
PROPERTY SetupKeepsWhatIsThere
PROPERTY SetupIsIdempotent
PROPERTY ExamplesAreSorted
CHECK_DEADLOCK FALSE
