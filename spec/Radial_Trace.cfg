SPECIFICATION Spec
POSTCONDITION AllConsumed
