------------------------------- MODULE Merge -------------------------------
(***************************************************************************)
(* C13.  Merging and deleting cells of a (rate) matrix as a state machine. *)
(*                                                                         *)
(* Implementation: molgri/molecules/rate_merger.py                         *)
(*   merge_matrix_cells(M, all_to_join, index_list)  ->  (M', index_list') *)
(*   delete_rate_cells(M, to_remove, index_list)     ->  (M', index_list') *)
(*                                                                         *)
(* Abstract state: the set of groups of ORIGINAL cells that are still      *)
(* present (a partition of a subset of Cells) and whether a deletion has   *)
(* happened (from then on the diagonal is minus the off-diagonal row sum). *)
(* The index list and the matrix are FUNCTIONS of that state: `ilist' and  *)
(* `mat' below are what the implementation must return after every call.   *)
(* The pure operators are in MergeOps.tla.                                 *)
(***************************************************************************)
EXTENDS MergeOps, TLC

CONSTANTS N,        \* number of original cells
          MatKind,  \* "generic" | "symmetric" | "zerorow" | "adjacency" | "small" | "smallsym" | "smallzero"
          MaxJ,     \* at most this many join sublists per Merge
          MaxLen,   \* sublists have 2..MaxLen members
          MaxD,     \* deletion sets have 0..MaxD members
          Bug       \* "none" or the name of a modelled slip (negative configs)

Cells == CellsOf(N)

VARIABLES groups,      \* set of disjoint non-empty sets of original cells
          normalised,  \* TRUE once a deletion has re-set the diagonal
          ilist,       \* derived: the index list the code must return
          mat          \* derived: the matrix the code must return

vars == <<groups, normalised, ilist, mat>>

-----------------------------------------------------------------------------
Lossy(gs) == {IF Cardinality(g) > 1 THEN g \ {Max(g)} ELSE g : g \in gs}

Sublists == {S \in SUBSET Cells : Cardinality(S) >= 2 /\ Cardinality(S) <= MaxLen}
JoinSets == {J \in SUBSET Sublists : Cardinality(J) <= MaxJ}
DelSets  == {D \in SUBSET Cells : Cardinality(D) <= MaxD}

-----------------------------------------------------------------------------
Init == /\ groups = {{c} : c \in Cells}
        /\ normalised = FALSE
        /\ ilist = IndexList(groups)
        /\ mat = MatOf(N, MatKind, groups, normalised)

Derive == /\ ilist' = IndexList(groups')
          /\ mat' = MatOf(N, MatKind, groups', normalised')

MergeResult(gs, J) == IF Bug = "lossyMerge"
                      THEN {IF g # gs THEN Lossy(g) ELSE g : g \in MergeOutcomes(N, gs, J)}
                      ELSE MergeOutcomes(N, gs, J)

Merge(J) == /\ groups # {}          \* the 0x0 matrix is terminal (statement is silent about it)
            /\ \E g \in MergeResult(groups, J) : groups' = g
            /\ UNCHANGED normalised
            /\ Derive

Delete(D) == /\ groups # {}
             /\ groups' = DeleteOutcome(groups, D)
             /\ normalised' = IF Bug = "noRenorm" THEN normalised ELSE TRUE
             /\ Derive

Next == (\E J \in JoinSets : Merge(J)) \/ (\E D \in DelSets : Delete(D))

Spec == Init /\ [][Next]_vars

-----------------------------------------------------------------------------
(* invariants *)

TypeOK == /\ groups \subseteq (SUBSET Cells) \ {{}}
          /\ normalised \in BOOLEAN

Disjoint == \A A, B \in groups : A # B => A \cap B = {}

(* index list: disjoint sorted groups ordered by smallest member, one per matrix row *)
ListCanonical ==
  /\ Len(ilist) = Cardinality(groups)
  /\ Len(mat) = Len(ilist)
  /\ \A k \in 1 .. Len(ilist) :
        /\ Len(ilist[k]) > 0
        /\ \A a, b \in 1 .. Len(ilist[k]) : a < b => ilist[k][a] < ilist[k][b]
        /\ Len(mat[k]) = Len(ilist)
  /\ \A k, m \in 1 .. Len(ilist) : k < m => ilist[k][1] < ilist[m][1]
  /\ {ToSet(ilist[k]) : k \in 1 .. Len(ilist)} = groups

M0RowsZero == \A i \in Cells : MapThenSumSet(LAMBDA j : M0(N, MatKind, i, j), Cells) = 0
M0Symmetric == \A i, j \in Cells : M0(N, MatKind, i, j) = M0(N, MatKind, j, i)

(* rows of a zero-row-sum input keep summing to zero; after a deletion rows always do *)
ZeroRowSumKept == (M0RowsZero \/ normalised) => \A r \in 1 .. Len(mat) : SeqSum(mat[r]) = 0

(* symmetric inputs stay symmetric *)
SymmetryKept == M0Symmetric => \A r, c \in 1 .. Len(mat) : mat[r][c] = mat[c][r]

(* lumping is exact: every off-diagonal entry is the block sum of ORIGINAL entries *)
ExactLumping == \A r, c \in 1 .. Len(mat) : r # c =>
                   mat[r][c] = BlockSum(N, MatKind, ToSet(ilist[r]), ToSet(ilist[c]))

(* one-shot merging equals step-wise merging (for joins among present cells both readings
   coincide, so this is a statement about the single well-defined outcome) *)
OneShotIsStepwise ==
  \A J1, J2 \in JoinSets :
     (UNION J1 \cup UNION J2) \subseteq Present(groups) =>
        MergeClosureFirst(N, MergeClosureFirst(N, groups, J1), J2) = MergeClosureFirst(N, groups, J1 \cup J2)

ReadingsAgreeOnPresent ==
  \A J \in JoinSets : UNION J \subseteq Present(groups) =>
        MergeClosureFirst(N, groups, J) = MergeIgnoreFirst(groups, J)

(* a merge never loses or invents a cell *)
MergeKeepsCells == \A J \in JoinSets : \A g \in MergeResult(groups, J) : Present(g) = Present(groups)

(* action properties *)
CellsOnlyShrink == [][ Present(groups') \subseteq Present(groups) ]_vars
GroupsOnlyCoarsen == [][ \A g \in groups : (g \subseteq Present(groups')) => \E h \in groups' : g \subseteq h ]_vars
=============================================================================
