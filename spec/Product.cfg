SPECIFICATION Spec
CONSTANTS
  MaxP = 3
  MaxB = 3
  Vals = {1, 2}
  Bug = "none"
INVARIANT OperationalIsDeclarative
INVARIANT Symmetric
INVARIANT EmptyDiagonal
INVARIANT PatternIsProductOfPatterns
