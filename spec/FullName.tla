------------------------------ MODULE FullName ------------------------------
(***************************************************************************)
(* Growth G10.  The identifier of a full grid and its way back             *)
(* (FullGrid.get_name / PositionGrid.get_name / naming.FullGridNameParser):*)
(*   name     = b_<algB>_<nB>_o_<algO>_<nO>_t_<hash>                       *)
(*   standard = o_<algO>_<nO>_b_<algB>_<nB>_t_<hash>                       *)
(* as token sequences (tokens are joined by "_" in the implementation).    *)
(* The parser is modelled as the code reads it: every token "b" / "o" /    *)
(* "t" is a marker; after "b" / "o" the next TWO tokens go to the grid-    *)
(* name normalisation of C17 (GridNameOps!RefParse) in the role b / o,     *)
(* after "t" the next token is the hash.  Claim: for every pair of         *)
(* standard grid names the builder can emit, parsing the identifier gives  *)
(* back both grids, both sizes and the hash, and the standard full name is *)
(* a fixed point of parse-and-rebuild.                                     *)
(***************************************************************************)
EXTENDS Integers, Sequences, FiniteSets, TLC

O == INSTANCE GridNameOps
CONSTANTS Hashes, Bug           \* Bug: "none" | "rolesSwapped" | "oneTokenAfterMarker"

NumTok(n) == CHOOSE t \in O!NumTokens : O!NumVal(t) = n /\ t # "007"
StdNames(role) == {O!Std(a, n) : a \in O!NonZeroAlgs(role), n \in {2, 7, 15}} \cup {O!Std(O!ZeroAlg(role), 1)}
Build(b, o, h) == <<"b", b.alg, NumTok(b.n), "o", o.alg, NumTok(o.n), "t", h>>
Standard(b, o, h) == <<"o", o.alg, NumTok(o.n), "b", b.alg, NumTok(b.n), "t", h>>

After(name, marker, k) ==        \* the k tokens following the (last) marker token, as the loop leaves them
  LET I == {i \in 1 .. Len(name) : name[i] = marker} IN
  IF I = {} THEN <<>> ELSE LET i == CHOOSE x \in I : \A y \in I : y <= x IN SubSeq(name, i + 1, i + k)
Width == IF Bug = "oneTokenAfterMarker" THEN 1 ELSE 2
Parse(name) == [b |-> O!RefParse(After(name, "b", Width), IF Bug = "rolesSwapped" THEN "o" ELSE "b"),
                o |-> O!RefParse(After(name, "o", Width), IF Bug = "rolesSwapped" THEN "b" ELSE "o"),
                t |-> After(name, "t", 1)]

VARIABLES b, o, h, phase, name
vars == <<b, o, h, phase, name>>
Init == /\ b \in StdNames("b") /\ o \in StdNames("o") /\ h \in Hashes /\ phase = "built" /\ name = Build(b, o, h)
Restandardise == /\ phase \in {"built", "standard"}
                 /\ LET p == Parse(name) IN
                    /\ p.b.kind = "Std" /\ p.o.kind = "Std"
                    /\ name' = Standard(p.b, p.o, p.t[1])
                 /\ phase' = "standard" /\ UNCHANGED <<b, o, h>>
Next == Restandardise
Spec == Init /\ [][Next]_vars

RoundTrip == LET p == Parse(name) IN p.b = b /\ p.o = o /\ p.t = <<h>>
StandardIsFixedPoint == phase = "standard" => name = Standard(b, o, h)
=============================================================================
