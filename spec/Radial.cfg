SPECIFICATION Spec
CONSTANTS
  Pool = {0, 100, 150, 250, 300, 400, 1000, 1300}
  MaxLen = 3
  Bug = "none"
INVARIANT Ascending
INVARIANT Interleaved
INVARIANT LastBoundary
INVARIANT SingleRadius
INVARIANT IncrementsPositive
