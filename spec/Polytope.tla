------------------------------ MODULE Polytope ------------------------------
(***************************************************************************)
(* C18 model.  Subdivision of a polytope as the implementation does it:    *)
(*   Split      a new node at the midpoint of EVERY edge (coinciding       *)
(*              midpoints are one node), every edge replaced by its halves *)
(*   AddExtras  the polytope-specific extra edges, which only ever join    *)
(*              two nodes of the newest level (code: wished_levels)        *)
(* cube3D / cube4D: divide_edges = Split ; AddExtras                       *)
(* ico            : divide_edges = AddExtras ; Split                       *)
(* Declarative target: PolyOps!Lattice / UnitEdges.  TLC checks that the   *)
(* operational subdivision produces exactly the lattice at every level.    *)
(***************************************************************************)
EXTENDS PolyOps

CONSTANTS Kind, MaxLevel, Bug     \* Bug: "none" | "noExtras" | "splitKeepsOld"

VARIABLES lvl, nodes, newest, edges, pendingExtras
vars == <<lvl, nodes, newest, edges, pendingExtras>>

Init == /\ lvl = 0
        /\ nodes = Lattice(Kind, 0)
        /\ newest = nodes
        /\ edges = UnitEdges(Kind, 0)
        /\ pendingExtras = FALSE

Mid(e) == LET u == CHOOSE x \in e : TRUE
              v == CHOOSE x \in e : x # u
          IN Add(u, v)
Halves(e) == {{Mul(2, x), Mid(e)} : x \in e}

(* one call of the base-class divide: midpoints + halves *)
SplitResult(ns, es) ==
  [nodes |-> {Mul(2, x) : x \in ns} \cup {Mid(e) : e \in es},
   newest |-> {Mid(e) : e \in es},
   edges |-> (UNION {Halves(e) : e \in es}) \cup (IF Bug = "splitKeepsOld" THEN {{Mul(2, x) : x \in e} : e \in es} ELSE {})]

(* the extra edges: unit edges of the current level joining two nodes of the newest level *)
Extras(k, nw) == IF Bug = "noExtras" THEN {} ELSE {e \in UnitEdges(Kind, k) : e \subseteq nw}

Divide ==
  /\ lvl < MaxLevel
  /\ IF Kind = "ico"
     THEN LET r == SplitResult(nodes, edges \cup Extras(lvl, newest))
          IN /\ nodes' = r.nodes /\ newest' = r.newest /\ edges' = r.edges
             /\ pendingExtras' = TRUE          \* the inner triangles are added by the NEXT divide
     ELSE LET r == SplitResult(nodes, edges)
          IN /\ nodes' = r.nodes /\ newest' = r.newest
             /\ edges' = r.edges \cup Extras(lvl + 1, r.newest)
             /\ pendingExtras' = FALSE
  /\ lvl' = lvl + 1

Spec == Init /\ [][Divide]_vars

-----------------------------------------------------------------------------
NodesAreLattice == nodes = Lattice(Kind, lvl)
NodeCountOK == Cardinality(nodes) = NodeCount(Kind, lvl)
EdgesAreUnitEdges ==
  IF pendingExtras THEN edges \cup {e \in UnitEdges(Kind, lvl) : e \subseteq newest} = UnitEdges(Kind, lvl)
                        /\ edges \subseteq UnitEdges(Kind, lvl)
  ELSE edges = UnitEdges(Kind, lvl)
EdgeCountOK == Cardinality(UnitEdges(Kind, lvl)) = EdgeCount(Kind, lvl)
ClosedUnderNegation == \A u \in nodes : Neg(u) \in nodes
NoOrigin == \A u \in nodes : u # Neg(u)
(* the half selection: exactly one of every antipodal pair is canonical *)
HalfSelection == Kind = "cube4D" =>
   /\ \A u \in nodes : Canonical(u) # Canonical(Neg(u))
   /\ 2 * Cardinality({u \in nodes : Canonical(u)}) = Cardinality(nodes)
(* old nodes keep their (doubled) coordinates: index permanence at the level of sets *)
OldNodesKept == [][ {Mul(2, x) : x \in nodes} \subseteq nodes' /\ newest' \cap {Mul(2, x) : x \in nodes} = {} ]_vars
=============================================================================
