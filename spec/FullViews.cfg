SPECIFICATION Spec
CONSTANTS
  MaxB = 2
  MaxO = 2
  MaxT = 2
  Views = {"len", "bN", "oN", "tN", "posLen", "rows", "posRows"}
  Bug = "none"
INVARIANT OneTriple
INVARIANT AnswersAreProjections
PROPERTY AnswersAreStable
CHECK_DEADLOCK FALSE
