SPECIFICATION Spec
CONSTANTS
  N = 3
  Levels = {0, 1, 2}
  Limits <- DefaultLimits
  MatKind = "generic"
INVARIANT Contract
INVARIANT Membership
INVARIANT GroupsAreLowBarrierComponents
