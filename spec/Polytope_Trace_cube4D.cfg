SPECIFICATION TraceSpec
CONSTANTS
  Kind = "cube4D"
  MaxLevel = 9
  Bug = "none"
INVARIANT NodesAreLattice
POSTCONDITION AllConsumed
