--------------------------- MODULE Polytope_Trace ---------------------------
(***************************************************************************)
(* C18, code -> spec.  A trace is the history of ONE real polytope object: *)
(*   create, get(N, projection)*, divide, get*, divide, ...                *)
(* The trace spec takes the model's own Divide action (Polytope.tla) for   *)
(* every logged divide and compares the model's successor state with what  *)
(* the implementation logged (nodes in permanent-index order as exact      *)
(* lattice coordinates, levels, indices, edges, half selection), and keeps *)
(* the longest sequence of per-row digests seen so far to check that       *)
(* get_nodes(N) is a prefix of every later get_nodes(M), cache warm or not.*)
(***************************************************************************)
EXTENDS Polytope, SequencesExt, Json, IOUtils

Log == JsonDeserialize(IOEnv.TRACE_FILE)

VARIABLES l,        \* next event
          order,    \* nodes in permanent-index order, in units of the current level
          levels,   \* creation level of every node, same order
          seenRaw, seenProj   \* longest digest sequences of get_nodes(projection=False/True)
tvars == <<vars, l, order, levels, seenRaw, seenProj>>

Ev == Log[l]
SeqSet(s) == {s[i] : i \in 1 .. Len(s)}
EdgeSet(ev) == {{ev.nodes[e[1] + 1], ev.nodes[e[2] + 1]} : e \in SeqSet(ev.edges)}
Reject(c) == PrintT(<<"REJECT", Ev.tid, c, l>>)

PrefixRel(a, b) == IsPrefix(a, b) \/ IsPrefix(b, a)
Longer(a, b) == IF Len(a) >= Len(b) THEN a ELSE b

(* checks shared by create and divide; ns, es, nw, k are the MODEL's (successor) state.
   Only what the statement of C18 speaks about is a verdict: the node set, repetition, permanent indices and
   levels, projection, negation closure, half selection.  The edge set and "new nodes are midpoints of the
   previous edges" are the MECHANISM (a correct refactoring may add the extra edges at another moment); they
   are evaluated by EdgesAgree below and reported by the driver as an advisory, not as a violation. *)
EdgesAgree(ev, es) == EdgeSet(ev) = es
StateClause(ev, ns, es, nw, k, oldOrder, oldLevels) ==
  IF ev.err # "" THEN "exception:" \o ev.err
  ELSE IF Len(ev.nodes) # Cardinality(SeqSet(ev.nodes)) THEN "a node appears twice"
  ELSE IF SeqSet(ev.nodes) # ns THEN "node set is not the model's lattice"
  ELSE IF Len(ev.nodes) # NodeCount(Kind, k) THEN "node count"
  ELSE IF \E i \in 1 .. Len(oldOrder) : ev.nodes[i] # Mul(2, oldOrder[i]) THEN "index of an old node changed"
  ELSE IF SubSeq(ev.levels, 1, Len(oldLevels)) # oldLevels THEN "level of an old node changed"
  ELSE IF \E i \in (Len(oldLevels) + 1) .. Len(ev.levels) : ev.levels[i] # k THEN "level of a new node"
  ELSE IF ev.ci # [i \in 1 .. Len(ev.nodes) |-> i - 1] THEN "permanent indices are not 0..n-1"
  ELSE IF ev.projres > 1000 THEN "projection is not the node scaled to unit length"
  ELSE IF ~ev.negclosed THEN "projections not closed under negation"
  ELSE IF Kind = "cube4D" /\ ev.half # SelectSeq([i \in 1 .. Len(ev.nodes) |-> i - 1], LAMBDA i : Canonical(ev.nodes[i + 1]))
       THEN "half selection is not the canonical half in index order"
  ELSE "ok"

TraceInit == /\ Init
             /\ l = 1 /\ order = <<>> /\ levels = <<>> /\ seenRaw = <<>> /\ seenProj = <<>>
             /\ TLCSet(1, 0)

Create == /\ Ev.ev = "create"
          /\ LET c == StateClause(Ev, nodes, edges, nodes, 0, <<>>, <<>>) IN IF c = "ok" THEN TRUE ELSE Reject(c)
          /\ order' = Ev.nodes /\ levels' = Ev.levels
          /\ UNCHANGED <<vars, seenRaw, seenProj>>

TraceDivide ==
          /\ Ev.ev = "divide"
          /\ Divide                                  \* the model's action
          /\ LET c == StateClause(Ev, nodes', edges', newest', lvl', order, levels) IN IF c = "ok" THEN TRUE ELSE Reject(c)
          /\ IF Ev.err = "" /\ ~EdgesAgree(Ev, edges') THEN PrintT(<<"ADVISORY", Ev.tid, "edge set differs from the model", l>>) ELSE TRUE
          /\ order' = Ev.nodes /\ levels' = Ev.levels
          /\ UNCHANGED <<seenRaw, seenProj>>

Get ==    /\ Ev.ev = "get"
          /\ LET seen == IF Ev.proj THEN seenProj ELSE seenRaw
                 c == IF Ev.err # "" THEN "exception:" \o Ev.err
                      ELSE IF Len(Ev.rows) # Ev.n THEN "wrong number of rows"
                      ELSE IF ~PrefixRel(Ev.rows, seen) THEN "not a prefix of an earlier/later result"
                      ELSE "ok"
             IN /\ IF c = "ok" THEN TRUE ELSE Reject(c)
                /\ seenRaw' = IF ~Ev.proj /\ c = "ok" THEN Longer(Ev.rows, seenRaw) ELSE seenRaw
                /\ seenProj' = IF Ev.proj /\ c = "ok" THEN Longer(Ev.rows, seenProj) ELSE seenProj
          /\ UNCHANGED <<vars, order, levels>>

TraceNext == /\ l <= Len(Log)
             /\ (Create \/ TraceDivide \/ Get)
             /\ l' = l + 1
             /\ TLCSet(1, l)
TraceSpec == TraceInit /\ [][TraceNext]_tvars
AllConsumed == TLCGet(1) = Len(Log)
=============================================================================
