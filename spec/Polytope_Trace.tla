--------------------------- MODULE Polytope_Trace ---------------------------
(***************************************************************************)
(* C18, code -> spec.  A trace is the history of ONE real polytope object: *)
(*   create, get(N, projection)*, divide, get*, divide, ...                *)
(* The trace spec takes the model's own Divide action (Polytope.tla) for   *)
(* every logged divide and compares the model's successor state with what  *)
(* the implementation logged (nodes in permanent-index order as exact      *)
(* lattice coordinates, levels, indices, edges, half selection), and keeps *)
(* the longest sequence of per-row digests seen so far to check that       *)
(* get_nodes(N) is a prefix of every later get_nodes(M), cache warm or not.*)
(***************************************************************************)
EXTENDS Polytope, SequencesExt, Json, IOUtils

Log == JsonDeserialize(IOEnv.TRACE_FILE)

VARIABLES l,        \* next event
          order,    \* nodes in permanent-index order, in units of the current level
          levels,   \* creation level of every node, same order
          seenRaw, seenProj,  \* longest digest sequences of get_nodes(projection=False/True)
          seenHalf            \* the same for get_half_of_hypercube, per subdivision level and projection flag
tvars == <<vars, l, order, levels, seenRaw, seenProj, seenHalf>>

Ev == Log[l]
SeqSet(s) == {s[i] : i \in 1 .. Len(s)}
EdgeSet(ev) == {{ev.nodes[e[1] + 1], ev.nodes[e[2] + 1]} : e \in SeqSet(ev.edges)}
Reject(c) == PrintT(<<"REJECT", Ev.tid, c, l>>)

PrefixRel(a, b) == IsPrefix(a, b) \/ IsPrefix(b, a)
Longer(a, b) == IF Len(a) >= Len(b) THEN a ELSE b

(* checks shared by create and divide; ns, es, nw, k are the MODEL's (successor) state.
   Only what the statement of C18 speaks about is a verdict: the node set, repetition, permanent indices and
   levels, projection, negation closure, half selection.  The edge set and "new nodes are midpoints of the
   previous edges" are the MECHANISM (a correct refactoring may add the extra edges at another moment); they
   are evaluated by EdgesAgree below and reported by the driver as an advisory, not as a violation. *)
EdgesAgree(ev, es) == EdgeSet(ev) = es
StateClauseG(ev, ns, es, nw, k, oldOrder, oldLevels, oneStep) ==
  IF ev.err # "" THEN "exception:" \o ev.err
  ELSE IF Len(ev.nodes) # Cardinality(SeqSet(ev.nodes)) THEN "a node appears twice"
  ELSE IF SeqSet(ev.nodes) # ns THEN "node set is not the model's lattice"
  ELSE IF Len(ev.nodes) # NodeCount(Kind, k) THEN "node count"
  ELSE IF \E i \in 1 .. Len(oldOrder) : ev.nodes[i] # (IF oneStep THEN Mul(2, oldOrder[i]) ELSE oldOrder[i]) THEN "index of an old node changed"
  ELSE IF SubSeq(ev.levels, 1, Len(oldLevels)) # oldLevels THEN "level of an old node changed"
  ELSE IF oneStep /\ \E i \in (Len(oldLevels) + 1) .. Len(ev.levels) : ev.levels[i] # k THEN "level of a new node"
  ELSE IF \E i \in 1 .. (Len(ev.levels) - 1) : ev.levels[i] > ev.levels[i + 1] THEN "indices of an earlier level are not all below those of a later level"
  ELSE IF \E i \in 1 .. Len(ev.levels) : ev.levels[i] > k THEN "level of a node"
  ELSE IF ev.ci # [i \in 1 .. Len(ev.nodes) |-> i - 1] THEN "permanent indices are not 0..n-1"
  ELSE IF ev.projres > 1000 THEN "projection is not the node scaled to unit length"
  ELSE IF ~ev.negclosed THEN "projections not closed under negation"
  ELSE IF Kind = "cube4D" /\ ev.half # SelectSeq([i \in 1 .. Len(ev.nodes) |-> i - 1], LAMBDA i : Canonical(ev.nodes[i + 1]))
       THEN "half selection is not the canonical half in index order"
  ELSE "ok"

StateClause(ev, ns, es, nw, k, oldOrder, oldLevels) == StateClauseG(ev, ns, es, nw, k, oldOrder, oldLevels, TRUE)

TraceInit == /\ Init
             /\ l = 1 /\ order = <<>> /\ levels = <<>> /\ seenRaw = <<>> /\ seenProj = <<>> /\ seenHalf = <<>>
             /\ TLCSet(1, 0)

(* a new polytope object: the model is put back into its initial state; the digest sequences seen so far are
   kept - a second object must reproduce them (the rows are a function of the polytope type only) *)
Create == /\ Ev.ev = "create"
          /\ lvl' = 0 /\ nodes' = Lattice(Kind, 0) /\ newest' = Lattice(Kind, 0) /\ edges' = UnitEdges(Kind, 0) /\ pendingExtras' = FALSE
          /\ LET c == StateClause(Ev, nodes', edges', nodes', 0, <<>>, <<>>) IN IF c = "ok" THEN TRUE ELSE Reject(c)
          /\ order' = Ev.nodes /\ levels' = Ev.levels
          /\ UNCHANGED <<seenRaw, seenProj, seenHalf>>

(* a division after which the driver deliberately does NOT look at the object (no getter runs, no cache is touched) *)
DivideBlind == /\ Ev.ev = "divide_blind"
               /\ Divide
               /\ IF Ev.err = "" THEN TRUE ELSE Reject("exception:" \o Ev.err)
               /\ order' = [i \in 1 .. Len(order) |-> Mul(2, order[i])] /\ UNCHANGED levels
               /\ UNCHANGED <<seenRaw, seenProj, seenHalf>>

(* a look at the whole object without a division in between (after one or several blind divisions) *)
Snap == /\ Ev.ev = "snap"
        /\ LET c == StateClauseG(Ev, nodes, edges, newest, lvl, order, SubSeq(levels, 1, Len(levels)), FALSE) IN IF c = "ok" THEN TRUE ELSE Reject(c)
        /\ order' = IF Ev.err = "" THEN Ev.nodes ELSE order
        /\ levels' = IF Ev.err = "" THEN Ev.levels ELSE levels
        /\ UNCHANGED <<vars, seenRaw, seenProj, seenHalf>>

HalfKey == <<lvl, Ev.proj>>
Half == /\ Ev.ev = "half"
        /\ LET seen == IF HalfKey \in DOMAIN seenHalf THEN seenHalf[HalfKey] ELSE <<>>
               want == IF Ev.n < 0 THEN NodeCount(Kind, lvl) \div 2 ELSE Ev.n
               c == IF Ev.err # "" THEN "exception:" \o Ev.err
                    ELSE IF Len(Ev.rows) # want THEN "half selection has the wrong number of rows"
                    ELSE IF ~PrefixRel(Ev.rows, seen) THEN "half selection is not a prefix of an earlier/later result"
                    ELSE "ok"
           IN /\ IF c = "ok" THEN TRUE ELSE Reject(c)
              /\ seenHalf' = IF c = "ok" THEN (HalfKey :> Longer(Ev.rows, seen)) @@ seenHalf ELSE seenHalf
        /\ UNCHANGED <<vars, order, levels, seenRaw, seenProj>>

TraceDivide ==
          /\ Ev.ev = "divide"
          /\ Divide                                  \* the model's action
          /\ LET c == StateClause(Ev, nodes', edges', newest', lvl', order, levels) IN IF c = "ok" THEN TRUE ELSE Reject(c)
          /\ IF Ev.err = "" /\ ~EdgesAgree(Ev, edges') THEN PrintT(<<"ADVISORY", Ev.tid, "edge set differs from the model", l>>) ELSE TRUE
          /\ order' = Ev.nodes /\ levels' = Ev.levels
          /\ UNCHANGED <<seenRaw, seenProj, seenHalf>>

Get ==    /\ Ev.ev = "get"
          /\ LET seen == IF Ev.proj THEN seenProj ELSE seenRaw
                 c == IF Ev.err # "" THEN "exception:" \o Ev.err
                      ELSE IF Len(Ev.rows) # Ev.n THEN "wrong number of rows"
                      ELSE IF ~PrefixRel(Ev.rows, seen) THEN "not a prefix of an earlier/later result"
                      ELSE "ok"
             IN /\ IF c = "ok" THEN TRUE ELSE Reject(c)
                /\ seenRaw' = IF ~Ev.proj /\ c = "ok" THEN Longer(Ev.rows, seenRaw) ELSE seenRaw
                /\ seenProj' = IF Ev.proj /\ c = "ok" THEN Longer(Ev.rows, seenProj) ELSE seenProj
          /\ UNCHANGED <<vars, order, levels, seenHalf>>

TraceNext == /\ l <= Len(Log)
             /\ (Create \/ TraceDivide \/ DivideBlind \/ Snap \/ Get \/ Half)
             /\ l' = l + 1
             /\ TLCSet(1, l)
TraceSpec == TraceInit /\ [][TraceNext]_tvars
AllConsumed == TLCGet(1) = Len(Log)
=============================================================================
