------------------------------ MODULE RadialOps ------------------------------
(***************************************************************************)
(* C16 (and the radial part of C05).  Radial grids.  Decimal numbers are   *)
(* integers in units of 10^-3 nm ("milli"); results are rationals          *)
(* <<num, den>> in the same unit.  A request is                            *)
(*   [kind |-> "list",  vals |-> <<...>>]        any order                 *)
(*   [kind |-> "scalar", a |-> x]                                          *)
(*   [kind |-> "linspace", a, b, num]            num = -1: default 50      *)
(*   [kind |-> "range", a, b, step]              range(a) = 0..a step 1nm, *)
(*                                               range(a,b) step 1nm       *)
(***************************************************************************)
EXTENDS Integers, Sequences, FiniteSets, SequencesExt, TLC

Q(a) == <<a, 1>>
QLess(p, q) == p[1] * q[2] < q[1] * p[2]
QEq(p, q) == p[1] * q[2] = q[1] * p[2]
RECURSIVE Gcd(_, _)
Gcd(a, b) == IF b = 0 THEN a ELSE Gcd(b, a % b)
AbsI(a) == IF a < 0 THEN -a ELSE a
Norm(p) == LET g == Gcd(AbsI(p[1]), p[2]) IN IF g = 0 THEN p ELSE <<p[1] \div g, p[2] \div g>>
QAdd(p, q) == Norm(<<p[1] * q[2] + q[1] * p[2], p[2] * q[2]>>)
QSub(p, q) == Norm(<<p[1] * q[2] - q[1] * p[2], p[2] * q[2]>>)
QHalf(p) == Norm(<<p[1], 2 * p[2]>>)
QNeg(p) == p[1] < 0

SortInts(s) == SortSeq(s, LAMBDA x, y : x < y)

(* the mathematically intended distances, ascending, in milli-nm *)
Intended(r) ==
  CASE r.kind = "list" -> LET s == SortInts(r.vals) IN [i \in 1 .. Len(s) |-> Q(s[i])]
    [] r.kind = "scalar" -> <<Q(r.a)>>
    [] r.kind = "linspace" ->
         LET n == IF r.num < 0 THEN 50 ELSE r.num IN
         IF n = 1 THEN <<Q(r.a)>>
         ELSE [i \in 1 .. n |-> Norm(<<r.a * (n - 1) + (i - 1) * (r.b - r.a), n - 1>>)]
    [] r.kind = "range" ->
         LET cnt == IF r.b <= r.a THEN 0 ELSE ((r.b - r.a - 1) \div r.step) + 1      \* #{i >= 0 : a + i step < b}
         IN [i \in 1 .. cnt |-> Q(r.a + (i - 1) * r.step)]

Rejected(r) == \E i \in 1 .. Len(Intended(r)) : QNeg(Intended(r)[i])

Increments(d) == [i \in 1 .. Len(d) |-> IF i = 1 THEN d[1] ELSE QSub(d[i], d[i - 1])]
(* shell boundaries: midpoints; the last one extends half the last increment; a single radius r gives 2r *)
Boundaries(d) ==
  IF Len(d) = 1 THEN <<QAdd(d[1], d[1])>>
  ELSE [i \in 1 .. Len(d) |-> IF i < Len(d) THEN QHalf(QAdd(d[i], d[i + 1]))
                               ELSE QAdd(d[i], QHalf(QSub(d[i], d[i - 1])))]
StrictlyIncreasingPositive(d) == Len(d) >= 1 /\ QLess(Q(0), d[1]) /\ \A i \in 2 .. Len(d) : QLess(d[i - 1], d[i])
=============================================================================
