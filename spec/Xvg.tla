--------------------------------- MODULE Xvg ---------------------------------
(***************************************************************************)
(* C20 (energy tables).  Line-oriented model of EnergyReader for GROMACS   *)
(* xvg files.  A file is a sequence of lines, each                         *)
(*    [k |-> "hash"] | [k |-> "at"] | [k |-> "legend", i |-> n, text |-> t]*)
(*    | [k |-> "data", row |-> r]                                          *)
(* Operational model of the reader (io.py:195-228):                        *)
(*   column names = "Time [ps]" followed by the texts of the lines         *)
(*       `@ s<i> legend "<text>"`, i in 0..9, found before the first line  *)
(*       that starts with neither '@' nor '#';                             *)
(*   table        = the lines from physical line 14 on (skiprows = 13)     *)
(*       that do not start with '@' ('@' is the comment character), each   *)
(*       split into fields; a '#' line that survives is a garbage row.     *)
(* Declarative meaning: one row per data line in file order, one column    *)
(* per legend in legend order.  Inside the envelope GROMACS guarantees     *)
(* ('#' lines <= 13, header lines >= 13, legends <= 10) the two coincide.  *)
(***************************************************************************)
EXTENDS Integers, Sequences, FiniteSets, FiniteSetsExt, TLC

CONSTANTS MaxHash, MaxAt, MaxLegends, MaxRows, Bug    \* Bug: "none" | "skip14" | "legendsSorted"

Skip == IF Bug = "skip14" THEN 14 ELSE 13

IsHeader(ln) == ln.k \in {"hash", "at", "legend"}
StartsAt(ln) == ln.k \in {"at", "legend"}

(* ------------------------------- operational ------------------------------- *)
RECURSIVE ScanNames(_, _)
ScanNames(lines, i) ==
  IF i > Len(lines) \/ ~IsHeader(lines[i]) THEN <<>>
  ELSE (IF lines[i].k = "legend" /\ lines[i].i <= 9 THEN <<lines[i].text>> ELSE <<>>) \o ScanNames(lines, i + 1)
OpNames(lines) == <<"Time [ps]">> \o ScanNames(lines, 1)

Garbage == [k |-> "garbage"]
OpRows(lines) ==
  LET rest == IF Len(lines) > Skip THEN SubSeq(lines, Skip + 1, Len(lines)) ELSE <<>>
      kept == SelectSeq(rest, LAMBDA ln : ~StartsAt(ln))
  IN [j \in 1 .. Len(kept) |-> IF kept[j].k = "data" THEN kept[j].row ELSE Garbage]

(* ------------------------------- declarative ------------------------------- *)
DeclNames(lines) == LET lg == TLCEval(SelectSeq(lines, LAMBDA ln : ln.k = "legend")) IN
  <<"Time [ps]">> \o [j \in 1 .. Len(lg) |-> lg[j].text]
DeclRows(lines) == LET d == SelectSeq(lines, LAMBDA ln : ln.k = "data") IN [j \in 1 .. Len(d) |-> d[j].row]

NHash(lines) == Len(SelectSeq(lines, LAMBDA ln : ln.k = "hash"))
NHeader(lines) == Len(SelectSeq(lines, IsHeader))
NLegends(lines) == Len(SelectSeq(lines, LAMBDA ln : ln.k = "legend"))
InEnvelope(lines) == NHash(lines) <= 13 /\ NHeader(lines) >= 13 /\ NLegends(lines) <= 10 /\ NLegends(lines) >= 1

(* ------------------------ the model: all layouts ------------------------ *)
(* GROMACS layout: nh '#' lines, then '@' lines among which the legends s0.. appear in order at
   positions chosen by `pos' (a strictly increasing choice), then data rows. *)
VARIABLES nh, na, legendPos, nrows, phase
vars == <<nh, na, legendPos, nrows, phase>>

IncreasingSubsets(n, kmax) ==          \* all subsets of 1..n with at most kmax (<= 3) elements
  {{}} \cup (IF kmax >= 3 THEN {{a, b, c} : a, b, c \in 1 .. n}
            ELSE IF kmax = 2 THEN {{a, b} : a, b \in 1 .. n}
            ELSE IF kmax = 1 THEN {{a} : a \in 1 .. n} ELSE {})
RECURSIVE Rank(_, _)
Rank(S, x) == Cardinality({y \in S : y < x})      \* 0-based legend number of position x

Lines == [j \in 1 .. nh |-> [k |-> "hash"]] \o
         [j \in 1 .. na |-> IF j \in legendPos THEN [k |-> "legend", i |-> Rank(legendPos, j), text |-> <<"L", Rank(legendPos, j)>>]
                            ELSE [k |-> "at"]] \o
         [j \in 1 .. nrows |-> [k |-> "data", row |-> <<"row", j>>]]

Init == /\ nh \in 0 .. MaxHash
        /\ na \in 0 .. MaxAt
        /\ legendPos \in IncreasingSubsets(na, MaxLegends)
        /\ nrows \in 0 .. MaxRows
        /\ phase = "written"
Read == phase = "written" /\ phase' = "read" /\ UNCHANGED <<nh, na, legendPos, nrows>>
Spec == Init /\ [][Read]_vars

ReaderCorrectInEnvelope ==
  LET L == TLCEval(Lines) IN InEnvelope(L) => (OpNames(L) = DeclNames(L) /\ OpRows(L) = DeclRows(L))
(* documentation of why the envelope is there: outside it the reader loses rows or invents garbage *)
TooManyHashGivesGarbage ==
  LET L == TLCEval(Lines) IN (nh > 13 /\ legendPos # {}) => (\E j \in 1 .. Len(OpRows(L)) : OpRows(L)[j] = Garbage)
ShortHeaderLosesRows ==
  LET L == TLCEval(Lines) IN (nh + na < 13 /\ nrows >= 13 - (nh + na)) => Len(OpRows(L)) = nrows - (13 - (nh + na))
=============================================================================
