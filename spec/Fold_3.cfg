SPECIFICATION Spec
CONSTANTS
  N = 3
  Weights = {1, 2}
  Bug = "none"
  AllowSelfTouch = FALSE
INVARIANT OperationalIsDeclarative
INVARIANT Symmetric
INVARIANT EmptyDiagonal
