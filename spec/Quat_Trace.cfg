SPECIFICATION Spec
POSTCONDITION AllConsumed
