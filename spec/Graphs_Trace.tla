----------------------------- MODULE Graphs_Trace -----------------------------
(***************************************************************************)
(* Graph helpers, code -> spec: one record per (graph, node):               *)
(*  [tid, n, edges <<[a,b]>>, w <<int>> (p_dist per edge), v,               *)
(*   second <<..>>, third <<..>> (as yielded, may not repeat),              *)
(*   after <<[a,b,p]>> (edges with p_dist after remove_and_reconnect), err] *)
(***************************************************************************)
EXTENDS Integers, Sequences, FiniteSets, TLC, Json, IOUtils
Log == JsonDeserialize(IOEnv.TRACE_FILE)
VARIABLE l
Rec == Log[l]
ToSet(s) == {s[i] : i \in 1 .. Len(s)}
Ord(a, b) == IF a < b THEN <<a, b>> ELSE <<b, a>>

Clause(r) ==
  LET Nd == 0 .. (r.n - 1)
      E == {Ord(r.edges[i][1], r.edges[i][2]) : i \in 1 .. Len(r.edges)}
      W == [e \in E |-> r.w[CHOOSE i \in 1 .. Len(r.edges) : Ord(r.edges[i][1], r.edges[i][2]) = e]]
      adj(a, b) == Ord(a, b) \in E
      nb(v) == {u \in Nd : u # v /\ adj(v, u)}
      RECURSIVE layer(_, _, _)
      layer(fr, seen, k) == IF k = 0 THEN fr ELSE LET nx == (UNION {nb(u) : u \in fr}) \ seen IN layer(nx, seen \cup nx, k - 1)
      dist(v, k) == layer({v}, {v}, k)
      keep == {e \in E : e[1] # r.v /\ e[2] # r.v}
      newp == {Ord(s, t) : s, t \in nb(r.v)} \ {<<x, x>> : x \in Nd}
      wantAfter == {<<e[1], e[2], IF e \in newp THEN W[Ord(r.v, e[1])] + W[Ord(r.v, e[2])] ELSE W[e]>> : e \in keep \cup newp}
      gotAfter == {<<Ord(a[1], a[2])[1], Ord(a[1], a[2])[2], a[3]>> : a \in ToSet(r.after)}
  IN IF r.err # "" THEN "exception:" \o r.err
     ELSE IF Len(r.second) # Cardinality(ToSet(r.second)) \/ Len(r.third) # Cardinality(ToSet(r.third)) THEN "a neighbour is yielded twice"
     ELSE IF ToSet(r.second) # dist(r.v, 2) THEN "second neighbours are not the nodes at distance two"
     ELSE IF ToSet(r.third) # dist(r.v, 3) THEN "third neighbours are not the nodes at distance three"
     ELSE IF gotAfter # wantAfter THEN "remove_and_reconnect: edges or summed distances"
     ELSE "ok"

Init == l = 1 /\ TLCSet(1, 0)
Step == /\ l <= Len(Log)
        /\ LET c == Clause(Rec) IN IF c = "ok" THEN TRUE ELSE PrintT(<<"REJECT", Rec.tid, c, 0>>)
        /\ TLCSet(1, l) /\ l' = l + 1
Spec == Init /\ [][Step]_l
AllConsumed == TLCGet(1) = Len(Log)
=============================================================================
