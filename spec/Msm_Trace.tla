------------------------------ MODULE Msm_Trace ------------------------------
(***************************************************************************)
(* C12, code -> spec.  One record per call of the real                     *)
(* MSM(x, m).get_one_tau_transition_matrix(tau, noncorrelated_windows):    *)
(*   [tid, x, tau, noncorr, m, scale, T (m x m ints = round(T_ij*scale)),  *)
(*    exact (all |T_ij*scale - round| < 1e-6), err]                        *)
(* scale = 27720 = lcm(1..12) for the exhaustive short trajectories (every *)
(* T_ij is then an integer multiple of 1/scale and is compared exactly);   *)
(* scale = 10^6 for long random trajectories (compared within one unit,    *)
(* which separates neighbouring count ratios for row totals <= 400).       *)
(***************************************************************************)
EXTENDS Integers, Sequences, FiniteSets, TLC, Json, IOUtils

O == INSTANCE MsmOps
Log == JsonDeserialize(IOEnv.TRACE_FILE)
VARIABLE l
Rec == Log[l]

Abs(v) == IF v < 0 THEN -v ELSE v

EntryOK(r, s, tot, i, j) ==
  LET t == r.T[i + 1][j + 1] IN
  IF tot[i] = 0 THEN t = 0
  ELSE IF r.scale = 27720 THEN t * tot[i] = s[i][j] * r.scale
       ELSE Abs(t * tot[i] - s[i][j] * r.scale) <= tot[i]

Clause(r) ==
  LET s == TLCEval(O!SymMatrix(r.x, r.tau, r.noncorr, r.m))     \* TLCEval: evaluate once, not per entry
      tot == TLCEval([i \in 0 .. (r.m - 1) |-> O!SeqSumF(s[i], r.m)])
      C == 0 .. (r.m - 1)
  IN IF r.err # "" THEN "exception:" \o r.err
     ELSE IF Len(r.T) # r.m \/ \E i \in 1 .. r.m : Len(r.T[i]) # r.m THEN "shape"
     ELSE IF r.scale = 27720 /\ ~r.exact THEN "entry is not a ratio of small counts"
     ELSE IF \E i, j \in C : ~EntryOK(r, s, tot, i, j) THEN "entry"
     ELSE "ok"

Init == l = 1 /\ TLCSet(1, 0)
Step == /\ l <= Len(Log)
        /\ LET c == Clause(Rec) IN IF c = "ok" THEN TRUE ELSE PrintT(<<"REJECT", Rec.tid, c, 0>>)
        /\ TLCSet(1, l)
        /\ l' = l + 1
Spec == Init /\ [][Step]_l
AllConsumed == TLCGet(1) = Len(Log)
=============================================================================
