SPECIFICATION Spec
POSTCONDITION AllConsumed
