----------------------------- MODULE GridOutcome -----------------------------
(***************************************************************************)
(* C19.  Life cycle of a full grid object for tiny sizes.                  *)
(*                                                                         *)
(* A configuration is (nB, nO, nT, cartesian).  The implementation chooses *)
(* a cell model per sphere grid by a size threshold (rotobj.py:97-104):    *)
(*    directions: nO >= 4 -> "exact"  (spherical Voronoi)  else "estimated"*)
(*    rotations : nB >= 4 -> "half"   (half-hypersphere)   else "estimated"*)
(* Actions: Construct, then Get(g) for the five getters in ANY order, any  *)
(* number of times.  Every call has an outcome                             *)
(*    [kind |-> "Ok", shape |-> <<...>>] | [kind |-> "Error", cls |-> ...] *)
(* Allowed(cfg, g) is what the statement permits.  The Bug constant turns  *)
(* on modelled defects of the pinned tree (negative configs).              *)
(***************************************************************************)
EXTENDS Integers, Sequences, FiniteSets, TLC

CONSTANTS MaxB, MaxO, MaxT, Bug   \* Bug: "none" | "estimatedLacksRegions" | "singleRadiusIncrement"

Getters == {"array", "volumes", "adjacency", "borders", "distances"}

Model3(nO) == IF nO >= 4 THEN "exact" ELSE "estimated"
Model4(nB) == IF nB >= 4 THEN "half" ELSE "estimated"
Size(c) == c.nT * c.nO * c.nB

Ok(shape) == [kind |-> "Ok", shape |-> shape]
Err(cls) == [kind |-> "Error", cls |-> cls]

ExpectedShape(c, g) ==
  CASE g = "array" -> <<Size(c), 7>>
    [] g = "volumes" -> <<Size(c)>>
    [] OTHER -> <<Size(c), Size(c)>>

(* the geometry library's own rejection of a 3D Voronoi diagram on too few directions *)
LibraryErrors == {"QhullError"}

Allowed(c, g) ==
  {Ok(ExpectedShape(c, g)), Err("ValueError")}
    \cup (IF c.cartesian /\ c.nO < 3 THEN {Err(e) : e \in LibraryErrors} ELSE {})

(* what the implementation (as modelled) does *)
Behaviour(c, g) ==
  IF c.cartesian /\ c.nO < 3 THEN Err("QhullError")            \* constructor fails: outcome of every getter
  ELSE IF Bug = "estimatedLacksRegions" /\ Model4(c.nB) = "estimated" /\ c.nB > 1
          /\ g \in {"adjacency", "borders", "distances"} THEN Err("AttributeError")
  ELSE IF Bug = "singleRadiusIncrement" /\ c.nT = 1 /\ ~c.cartesian /\ g = "distances" THEN Err("IndexError")
  ELSE Ok(ExpectedShape(c, g))

Configs == [nB : 1 .. MaxB, nO : 1 .. MaxO, nT : 1 .. MaxT, cartesian : BOOLEAN]

VARIABLES cfg, built, results    \* results: getter -> outcome of its first call ("none" before)
vars == <<cfg, built, results>>
None == [kind |-> "none"]

Init == cfg \in Configs /\ built = FALSE /\ results = [g \in Getters |-> None]
Construct == ~built /\ built' = TRUE /\ UNCHANGED <<cfg, results>>
Get(g) == /\ built
          /\ results' = [results EXCEPT ![g] = Behaviour(cfg, g)]
          /\ UNCHANGED <<cfg, built>>
Next == Construct \/ \E g \in Getters : Get(g)
Spec == Init /\ [][Next]_vars

NoInternalError == \A g \in Getters : results[g] = None \/ results[g] \in Allowed(cfg, g)
(* getters are pure: a repeated call never changes the recorded outcome *)
GetterPure == [][ \A g \in Getters : results[g] # None => results'[g] = results[g] ]_vars
=============================================================================
