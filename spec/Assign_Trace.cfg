SPECIFICATION Spec
POSTCONDITION AllConsumed
