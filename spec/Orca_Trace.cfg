SPECIFICATION Spec
POSTCONDITION AllConsumed
