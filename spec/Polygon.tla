-------------------------------- MODULE Polygon --------------------------------
(***************************************************************************)
(* C06, mechanism.  Operational model of utils.order_points +              *)
(* utils.get_polygon_area on planar convex polygons with INTEGER vertices   *)
(* (2D; the implementation's 3D cross products reduce to their z            *)
(* components for a polygon in a plane).                                    *)
(*                                                                          *)
(* order_points: c = centroid; n = (P1-c) x (P2-c); for every vertex P      *)
(*   direction = sign(((P-c) x (P1-c)) . n),  key = direction * arccos(cos) *)
(*   with cos the cosine of the angle between P-c and P1-c; the first       *)
(*   vertex has key 0; vertices are sorted by key (stable).                 *)
(* Only the ORDER of the keys matters, so they are compared exactly:        *)
(*   negative direction: key = -angle, ascending in cos;                    *)
(*   zero: direction 0 (P, c, P1 collinear) or angle 0;                     *)
(*   positive direction: key = +angle, descending in cos;                   *)
(* and cosines are compared through sign(dot) * dot^2 / |v|^2, cross        *)
(* multiplied.  All vectors are scaled by the number of vertices so that    *)
(* the centroid is integral.                                                *)
(* get_polygon_area: fan triangulation from the first ordered vertex.       *)
(* Declarative: the shoelace area of the convex polygon.                    *)
(***************************************************************************)
EXTENDS Integers, Sequences, FiniteSets, TLC, Json, IOUtils

CONSTANTS Fix       \* "pinned"  : sign(0) = 0 as in the pinned tree (collinear vertex gets key 0)
                    \* "repaired": a collinear vertex is given the positive direction and the reference vertex for the
                    \*             normal is the first one not collinear with the first vertex and the centroid

Cross(u, v) == u[1] * v[2] - u[2] * v[1]
Dot(u, v) == u[1] * v[1] + u[2] * v[2]
Sub(u, v) == <<u[1] - v[1], u[2] - v[2]>>
Sgn(x) == IF x > 0 THEN 1 ELSE IF x < 0 THEN -1 ELSE 0
Abs(x) == IF x < 0 THEN -x ELSE x

(* twice the signed shoelace area of a vertex sequence *)
RECURSIVE Shoe(_, _)
Shoe(p, i) == IF i > Len(p) THEN 0 ELSE Cross(p[i], p[IF i = Len(p) THEN 1 ELSE i + 1]) + Shoe(p, i + 1)
Area2(p) == Abs(Shoe(p, 1))

(* p is a strictly convex polygon given in counter-clockwise order *)
ConvexCCW(p) == LET n == Len(p) nx(i) == IF i = n THEN 1 ELSE i + 1 IN
  \A i \in 1 .. n : Cross(Sub(p[nx(i)], p[i]), Sub(p[nx(nx(i))], p[nx(i)])) > 0

(* ------------------------------ operational ------------------------------ *)
Scaled(p) == LET n == Len(p) IN [i \in 1 .. n |-> <<n * p[i][1], n * p[i][2]>>]          \* vertices times n
Centroid(p) == LET RECURSIVE S(_, _) S(q, i) == IF i > Len(q) THEN <<0, 0>> ELSE <<q[i][1] + S(q, i + 1)[1], q[i][2] + S(q, i + 1)[2]>>
               IN S(p, 1)                                                                  \* centroid times n

(* exact comparison of cosines of the angles between a, b and the common vector f: TRUE iff cos(a,f) < cos(b,f) *)
CosKey(a, f) == <<Sgn(Dot(a, f)) * Dot(a, f) * Dot(a, f), Dot(a, a)>>     \* sign(dot) dot^2 / |a|^2   (|f|^2 is common)
CosLess(a, b, f) == CosKey(a, f)[1] * CosKey(b, f)[2] < CosKey(b, f)[1] * CosKey(a, f)[2]
CosEq(a, b, f) == CosKey(a, f)[1] * CosKey(b, f)[2] = CosKey(b, f)[1] * CosKey(a, f)[2]
IsAngleZero(a, f) == Cross(a, f) = 0 /\ Dot(a, f) > 0

KeyLess(v, i, j, f, nrm) ==       \* key of vertex i < key of vertex j  (vectors v relative to the centroid)
  LET dir(k) == IF k = 1 THEN 0
                ELSE LET d == Sgn(Cross(v[k], f) * nrm) IN
                     IF d = 0 /\ Fix = "repaired" THEN 1 ELSE d
      zero(k) == dir(k) = 0 \/ IsAngleZero(v[k], f)
      cls(k) == IF zero(k) THEN 0 ELSE dir(k)
  IN IF cls(i) # cls(j) THEN cls(i) < cls(j)
     ELSE IF cls(i) = 0 THEN FALSE
     ELSE IF cls(i) = -1 THEN CosLess(v[i], v[j], f)          \* -angle ascending = cos ascending
     ELSE CosLess(v[j], v[i], f)                               \* +angle ascending = cos descending

OrderPoints(p) ==
  LET n == Len(p)
      c == Centroid(p)
      v == [i \in 1 .. n |-> Sub(Scaled(p)[i], c)]
      f == v[1]
      ref == IF Fix = "repaired" /\ \E k \in 2 .. n : Cross(f, v[k]) # 0
             THEN CHOOSE k \in 2 .. n : Cross(f, v[k]) # 0 /\ \A m \in 2 .. (k - 1) : Cross(f, v[m]) = 0
             ELSE 2
      nrm == Cross(f, v[ref])
      rank(i) == Cardinality({j \in 1 .. n : KeyLess(v, j, i, f, nrm)}) +
                 Cardinality({j \in 1 .. (i - 1) : ~KeyLess(v, j, i, f, nrm) /\ ~KeyLess(v, i, j, f, nrm)})
  IN [r \in 1 .. n |-> p[CHOOSE i \in 1 .. n : rank(i) = r - 1]]

FanArea2(q) == LET n == Len(q) RECURSIVE F(_) F(k) == IF k > n - 1 THEN 0 ELSE Abs(Cross(Sub(q[1], q[k]), Sub(q[k + 1], q[k]))) + F(k + 1)
               IN F(2)

(* --------------------------------- model --------------------------------- *)
VARIABLES poly,    \* a strictly convex lattice polygon, counter-clockwise
          perm,    \* the order in which its vertices are handed to order_points (first / second vertex matter)
          area2    \* twice the area computed operationally
vars == <<poly, perm, area2>>

(* the polygons: all strictly convex lattice polygons of a window, enumerated by the harness (an enumeration in
   TLA+ over all vertex tuples is hopeless) and CHECKED here: every one must be convex and counter-clockwise *)
Polys == LET raw == JsonDeserialize(IOEnv.POLY_FILE) IN {[i \in 1 .. Len(raw[k]) |-> <<raw[k][i][1], raw[k][i][2]>>] : k \in 1 .. Len(raw)}

(* input orders: every choice of first and second vertex, the rest in cyclic order *)
Inputs(p) == LET n == Len(p) IN
  {[k \in 1 .. n |-> IF k = 1 THEN a ELSE IF k = 2 THEN b
                     ELSE LET rest == SelectSeq([i \in 1 .. n |-> i], LAMBDA i : i # a /\ i # b) IN rest[k - 2]]
     : <<a, b>> \in {ab \in (1 .. n) \X (1 .. n) : ab[1] # ab[2]}}

Init == /\ poly \in Polys /\ perm \in Inputs(poly) /\ area2 = -1
Compute == /\ area2 = -1
           /\ area2' = FanArea2(OrderPoints([k \in 1 .. Len(poly) |-> poly[perm[k]]]))
           /\ UNCHANGED <<poly, perm>>
Spec == Init /\ [][Compute]_vars

AreaIsShoelace == area2 # -1 => area2 = Area2(poly)
InputIsConvex == ConvexCCW(poly)
=============================================================================
