-------------------------------- MODULE Product --------------------------------
(***************************************************************************)
(* C02.  The matrices of the full SE(3) grid as the Cartesian product of   *)
(* the position graph (nP cells) and the rotation graph (nB cells).        *)
(* Full index n = p*nB + b.                                                *)
(*   FullAdj(n, m) == (same rotation /\ PosAdj(p, p'))                     *)
(*                 \/ (same position /\ RotAdj(b, b'))                     *)
(* Operational model of FullGrid._get_N_N (fullgrid.py:225-282): the dense *)
(* position matrix is scanned and every TRUTHY element el is repeated for  *)
(* each rotation k at (nB*i + k, nB*j + k); the rotation matrix is placed  *)
(* on the diagonal blocks; the two parts are added.                        *)
(* Values are abstract positive integers (0 = no entry).                   *)
(***************************************************************************)
EXTENDS Integers, Sequences, FiniteSets, TLC

CONSTANTS MaxP, MaxB, Vals, Bug     \* Bug: "none" | "strideNP"

VARIABLES nP, nB, pos, rot, full, phase
vars == <<nP, nB, pos, rot, full, phase>>

SymMats(n, vals) ==    \* symmetric n x n matrices over vals with zero diagonal
  {[i \in 0 .. (n - 1) |-> [j \in 0 .. (n - 1) |-> IF i = j THEN 0 ELSE u[IF i < j THEN <<i, j>> ELSE <<j, i>>]]] :
      u \in [{p \in (0 .. (n - 1)) \X (0 .. (n - 1)) : p[1] < p[2]} -> vals]}

Init == /\ nP \in 1 .. MaxP /\ nB \in 1 .. MaxB
        /\ pos \in SymMats(nP, {0} \cup Vals) /\ rot \in SymMats(nB, {0} \cup Vals)
        /\ full = <<>> /\ phase = "parts"

PIdx(n, b) == n \div b
BIdx(n, b) == n % b

(* declarative product (value 0 = not adjacent) *)
DeclEntry(ps, rt, b, n, m) ==
  IF BIdx(n, b) = BIdx(m, b) /\ PIdx(n, b) # PIdx(m, b) THEN ps[PIdx(n, b)][PIdx(m, b)]
  ELSE IF PIdx(n, b) = PIdx(m, b) /\ BIdx(n, b) # BIdx(m, b) THEN rt[BIdx(n, b)][BIdx(m, b)]
  ELSE 0

(* operational block assembly *)
OpEntry(n, m) ==
  LET stride == IF Bug = "strideNP" THEN nP ELSE nB
      fromPos == IF \E i, j \in 0 .. (nP - 1), k \in 0 .. (nB - 1) : pos[i][j] # 0 /\ n = stride * i + k /\ m = stride * j + k
                 THEN LET c == CHOOSE c \in (0 .. (nP - 1)) \X (0 .. (nP - 1)) \X (0 .. (nB - 1)) :
                                  pos[c[1]][c[2]] # 0 /\ n = stride * c[1] + c[3] /\ m = stride * c[2] + c[3]
                      IN pos[c[1]][c[2]]
                 ELSE 0
      fromRot == IF n \div nB = m \div nB THEN rot[n % nB][m % nB] ELSE 0
  IN fromPos + fromRot

Assemble == /\ phase = "parts" /\ phase' = "full"
            /\ full' = [n \in 0 .. (nP * nB - 1) |-> [m \in 0 .. (nP * nB - 1) |-> OpEntry(n, m)]]
            /\ UNCHANGED <<nP, nB, pos, rot>>
Spec == Init /\ [][Assemble]_vars

Full == phase = "full"
Cells == 0 .. (nP * nB - 1)
OperationalIsDeclarative == Full => \A n, m \in Cells : full[n][m] = DeclEntry(pos, rot, nB, n, m)
Symmetric == Full => \A n, m \in Cells : full[n][m] = full[m][n]
EmptyDiagonal == Full => \A n \in Cells : full[n][n] = 0
(* adjacency, borders and distances are three assemblies over the SAME two graphs: they share one
   pattern exactly when no adjacent pair carries a zero value (the truthiness filter `if el:`) *)
PatternIsProductOfPatterns == Full => \A n, m \in Cells :
   (full[n][m] # 0) <=> \/ (BIdx(n, nB) = BIdx(m, nB) /\ pos[PIdx(n, nB)][PIdx(m, nB)] # 0)
                        \/ (PIdx(n, nB) = PIdx(m, nB) /\ rot[BIdx(n, nB)][BIdx(m, nB)] # 0)
=============================================================================
