--------------------------- MODULE GridName_Trace ---------------------------
(***************************************************************************)
(* C17, code -> spec.  One record per GridNameParser(name, role) call:     *)
(*  [tid, name (token seq), role, out, re (outcome of re-parsing the       *)
(*   standard name, kind "skip" if out is no Std), built (rows of the grid *)
(*   constructed from the standard name, -1 ValueError, -2 other error,    *)
(*   -3 not constructed)]                                                  *)
(***************************************************************************)
EXTENDS Integers, Sequences, FiniteSets, TLC, Json, IOUtils

O == INSTANCE GridNameOps
Log == JsonDeserialize(IOEnv.TRACE_FILE)
VARIABLE l
Rec == Log[l]

Norm(o) == IF o.kind = "Std" THEN O!Std(o.alg, o.n) ELSE IF o.kind = "ValueError" THEN O!VE ELSE o

Clause(r) ==
  LET out == Norm(r.out)
      f == O!Forced(r.name, r.role)
  IN IF out.kind = "OtherError" THEN "escapes with " \o out.cls
     ELSE IF ~O!Universal(out, r.role) THEN "universal"
     ELSE IF f # {} /\ out \notin f THEN "forced"
     ELSE IF out.kind = "Std" /\ Norm(r.re) # out THEN "not idempotent"
     ELSE IF out.kind = "Std" /\ r.built # -3 /\ r.built # -1 /\ r.built # out.n THEN "constructed grid has wrong size"
     ELSE "ok"

Init == l = 1 /\ TLCSet(1, 0)
Step == /\ l <= Len(Log)
        /\ LET c == Clause(Rec) IN IF c = "ok" THEN TRUE ELSE PrintT(<<"REJECT", Rec.tid, c, 0>>)
        /\ TLCSet(1, l)
        /\ l' = l + 1
Spec == Init /\ [][Step]_l
AllConsumed == TLCGet(1) = Len(Log)
=============================================================================
