SPECIFICATION Spec
POSTCONDITION AllConsumed
