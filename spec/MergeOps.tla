------------------------------ MODULE MergeOps ------------------------------
(***************************************************************************)
(* Pure operators of the lumping model (C13), parameterised by the number  *)
(* of cells n and the kind of original matrix, so that both the model      *)
(* (Merge.tla, constants) and the trace spec (Merge_Trace.tla, per-record  *)
(* parameters) use ONE definition.                                         *)
(***************************************************************************)
EXTENDS Integers, FiniteSets, Sequences, SequencesExt, FiniteSetsExt, TLC

RECURSIVE Pow2(_)
Pow2(k) == IF k = 0 THEN 1 ELSE 2 * Pow2(k - 1)

MinOf(a, b) == IF a < b THEN a ELSE b
MaxOf(a, b) == IF a < b THEN b ELSE a

CellsOf(n) == 0 .. (n - 1)
Generic(n, i, j) == Pow2(i * n + j)
OffDiag(n, i, j) == IF i = j THEN 0 ELSE Generic(n, i, j)
Small(i, j) == 1 + ((7 * i + 3 * j) % 11)      \* for long random histories on larger n (no overflow)

(* the original matrix *)
M0(n, kind, i, j) ==
  CASE kind = "generic"   -> Generic(n, i, j)
    [] kind = "symmetric" -> Generic(n, MinOf(i, j), MaxOf(i, j))
    [] kind = "zerorow"   -> IF i = j
                             THEN - MapThenSumSet(LAMBDA k : OffDiag(n, i, k), CellsOf(n))
                             ELSE OffDiag(n, i, j)
    [] kind = "small"     -> Small(i, j)
    [] kind = "smallsym"  -> Small(MinOf(i, j), MaxOf(i, j))
    [] kind = "smallzero" -> IF i = j
                             THEN - MapThenSumSet(LAMBDA k : IF k = i THEN 0 ELSE Small(i, k), CellsOf(n))
                             ELSE Small(i, j)
    [] kind = "given"     -> TLCGet(7)[i + 1][j + 1]      \* a matrix recorded from the code (register 7 is set by the trace spec
                                                          \* from IOEnv.BASE_FILE: histories harvested from the repository's own tests)
    [] kind = "adjacency" -> IF (i - j = 1) \/ (j - i = 1) \/ (i - j = n - 1) \/ (j - i = n - 1)
                             THEN 1 ELSE 0

Present(gs) == UNION gs

(* the canonical index list: groups ordered by smallest member, members ascending *)
OrderOf(gs) == SetToSortSeq(gs, LAMBDA a, b : Min(a) < Min(b))
IndexList(gs) == LET o == OrderOf(gs) IN
                 [k \in 1 .. Len(o) |-> SetToSortSeq(o[k], LAMBDA a, b : a < b)]

BlockSum(n, kind, A, B) == MapThenSumSet(LAMBDA p : M0(n, kind, p[1], p[2]), A \X B)

(* entry (A,B) of the lumped matrix: block sum of ORIGINAL entries; after a deletion the
   diagonal is minus the off-diagonal row sum over the groups still present *)
Entry(n, kind, gs, norm, A, B) ==
  IF A # B THEN BlockSum(n, kind, A, B)
  ELSE IF norm THEN - MapThenSumSet(LAMBDA C : BlockSum(n, kind, A, C), gs \ {A})
       ELSE BlockSum(n, kind, A, A)

MatOf(n, kind, gs, norm) == LET o == OrderOf(gs) IN
  [r \in 1 .. Len(o) |-> [c \in 1 .. Len(o) |-> Entry(n, kind, gs, norm, o[r], o[c])]]

-----------------------------------------------------------------------------
(* merging: connected components of nodes linked by join sublists *)

Touches(L, x) == L \cap x # {}

RECURSIVE Grow(_, _, _)
Grow(comp, Nodes, Links) ==
  LET nxt == comp \cup {m \in Nodes : \E L \in Links, k \in comp : Touches(L, k) /\ Touches(L, m)}
  IN IF nxt = comp THEN comp ELSE Grow(nxt, Nodes, Links)

Merged(Nodes, Links) == {UNION Grow({x}, Nodes, Links) : x \in Nodes}

(* Reading 1 (documented by the code: "multiple sublists with the same element are merged"):
   sublists are closed transitively first, also through cells that are no longer present,
   and only then are absent cells ignored. *)
MergeClosureFirst(n, gs, J) ==
  LET P == Present(gs)
      ghosts == {{c} : c \in CellsOf(n) \ P}
  IN {g \cap P : g \in Merged(gs \cup ghosts, J)} \ {{}}

(* Reading 2: absent cells are ignored first, then the sublists are closed. *)
MergeIgnoreFirst(gs, J) ==
  LET P == Present(gs) IN Merged(gs, {L \cap P : L \in J})

(* Which reading?  The statement demands that the result is the same "for any order or redundancy of the join
   lists": [[4, 0, 3]], [[4, 0], [0, 3]] and [[0, 3], [4, 0], [3, 0]] are spellings of one request.  Under
   reading 2 the single list [[4, 0, 3]] with cell 0 absent unites 3 and 4 while [[4, 0], [0, 3]] does not,
   so only reading 1 (which is also what the docstring of merge_matrix_cells promises) is consistent.
   Reading 2 is kept as an operator: the model shows both coincide whenever all listed cells are present. *)
MergeOutcomes(n, gs, J) == {MergeClosureFirst(n, gs, J)}

DeleteOutcome(gs, D) == {g \in gs : g \cap D = {}}

-----------------------------------------------------------------------------
(* the combined step SQRA.cut_and_merge: energies are integer levels (units of RT), the limits are
   given in HALF levels (so no energy ever sits on a limit); -1 stands for "limit absent". *)
Abs(x) == IF x < 0 THEN -x ELSE x
CutJoins(adj, e, lower2) == {{p[1], p[2]} : p \in {q \in adj : 2 * Abs(e[q[1] + 1] - e[q[2] + 1]) < lower2}}
CutTooHigh(n, e, upper2) == {i \in CellsOf(n) : 2 * e[i + 1] > upper2}
CutGroups(n, adj, e, lower2, upper2) ==
  LET g0 == {{c} : c \in CellsOf(n)}
      g1 == IF lower2 >= 0 THEN MergeClosureFirst(n, g0, CutJoins(adj, e, lower2)) ELSE g0
  IN IF upper2 >= 0 THEN DeleteOutcome(g1, CutTooHigh(n, e, upper2)) ELSE g1

RECURSIVE SeqSum(_)
SeqSum(s) == IF s = <<>> THEN 0 ELSE Head(s) + SeqSum(Tail(s))
=============================================================================
