SPECIFICATION Spec
CONSTANTS
  Pool = {2, 3, 5, 8, 13, 21}
  MaxT = 4
  MaxDist = 30
INVARIANT NearestIsShell
