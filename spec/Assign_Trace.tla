----------------------------- MODULE Assign_Trace -----------------------------
(***************************************************************************)
(* C11, code -> spec.  One record per frame given to the real              *)
(* AssignmentTool:                                                         *)
(*  [tid, dT, dO, dB (distance of the TRUE placement, known to the driver  *)
(*   because it generated the frame, to every radius / direction / grid    *)
(*   rotation, fixed point 1e-6), norm6, bound6, outliers, got (assigned   *)
(*   cell, -1 = NaN), err]                                                 *)
(***************************************************************************)
EXTENDS Integers, Sequences, FiniteSets, TLC, Json, IOUtils
A == INSTANCE Assign WITH Pool <- {}, MaxT <- 0, MaxDist <- 0, radii <- <<>>, dist <- 0
Log == JsonDeserialize(IOEnv.TRACE_FILE)
VARIABLE l
Rec == Log[l]
Margin == 2000        \* 2e-3 (Angstrom resp. radian): placements nearer than this to a cell boundary are excluded

Clause(r) ==
  LET want == A!Expected(r, Margin) IN
  IF r.err # "" THEN "exception:" \o r.err
  ELSE IF want = -2 \/ want = r.got THEN "ok"
  ELSE IF want = -1 THEN "placement beyond the outermost shell boundary was assigned a cell"
  ELSE IF r.got = -1 THEN "placement inside the grid was assigned NaN"
  ELSE IF r.got % Len(r.dB) # want % Len(r.dB) THEN "rotation index"
  ELSE IF (r.got \div Len(r.dB)) % Len(r.dO) # (want \div Len(r.dB)) % Len(r.dO) THEN "direction index"
  ELSE "shell index / composition"

Init == l = 1 /\ TLCSet(1, 0)
Step == /\ l <= Len(Log)
        /\ LET c == Clause(Rec) IN IF c = "ok" THEN TRUE ELSE PrintT(<<"REJECT", Rec.tid, c, 0>>)
        /\ TLCSet(1, l)
        /\ l' = l + 1
Spec == Init /\ [][Step]_l
AllConsumed == TLCGet(1) = Len(Log)
=============================================================================
