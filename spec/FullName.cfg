SPECIFICATION Spec
CONSTANTS
  Hashes = {"h1", "h2"}
  Bug = "none"
INVARIANT RoundTrip
INVARIANT StandardIsFixedPoint
CHECK_DEADLOCK FALSE
