SPECIFICATION Spec
CONSTANTS
  Keys <- KeySet
  Vals = {1, 2}
  MaxLines = 3
  RequirePrefixFree = FALSE
INVARIANT ReadIsMapLookup
CHECK_DEADLOCK FALSE
