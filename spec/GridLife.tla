------------------------------- MODULE GridLife -------------------------------
(***************************************************************************)
(* C08 (and the object life cycle behind C07 / C15).  Grid objects, the     *)
(* process-global random generator, and getters.                            *)
(*                                                                          *)
(* The generator is abstracted to <<last seed, number of draws since>>; a   *)
(* draw returns the token <<seed, index>>, i.e. a deterministic generator.  *)
(* The library's RNG DISCIPLINE (polytopes.py:268, rotobj.py:259/271,       *)
(* voronoi.py:226): every draw the library makes is preceded, inside the    *)
(* same call, by a re-seed with a documented constant                       *)
(*    15 before the shuffle of every subdivision level's new nodes,         *)
(*     0 before the draw of a random grid,                                  *)
(*     1 before the draw of the dense helper points (grids with N >= 4);    *)
(* getters draw nothing.  The value a call returns is modelled as the       *)
(* sequence of tokens it consumed; TLC shows that under the discipline the  *)
(* value of Create(alg, N) and of every getter is the same in every         *)
(* interleaving with user re-seeding / drawing and other grid objects, and  *)
(* that one un-seeded draw (negative config) breaks this.                   *)
(***************************************************************************)
EXTENDS Integers, Sequences, FiniteSets, TLC

CONSTANTS Specs, Getters, MaxObjs, MaxDraws, UserSeeds, Bug     \* Bug: "none" | "unseededRandom" | "unseededHelper" | "getterDraws"

(* value sets for the configs (cfg files cannot write tuples): the small set is explored exhaustively,
   the pool is used by -simulate to generate behaviours that are replayed into the implementation *)
SmallSpecs == {<<"ico", 13>>, <<"randomS", 6>>, <<"cube4D", 3>>}
PoolSpecs == {<<"ico", 7>>, <<"ico", 13>>, <<"ico", 43>>, <<"cube3D", 9>>, <<"randomS", 6>>, <<"cube4D", 9>>,
              <<"randomQ", 6>>, <<"cube4D", 3>>, <<"zero3D", 1>>}

(* how many subdivision levels (each: seed 15 + one shuffle) the polytope behind <<alg, N>> needs:
   the level-0 polytope plus as many divisions as are needed to have at least N nodes *)
LevelsOf(alg, n) ==
  CASE alg = "ico" -> (IF n <= 12 THEN 1 ELSE IF n <= 42 THEN 2 ELSE IF n <= 162 THEN 3 ELSE IF n <= 642 THEN 4 ELSE 5)
    [] alg = "cube3D" -> (IF n <= 8 THEN 1 ELSE IF n <= 26 THEN 2 ELSE IF n <= 98 THEN 3 ELSE IF n <= 386 THEN 4 ELSE 5)
    [] alg \in {"cube4D", "fulldiv"} -> (IF n <= 8 THEN 1 ELSE IF n <= 40 THEN 2 ELSE IF n <= 272 THEN 3 ELSE 4)
    [] OTHER -> 0
Levels(sp) == LevelsOf(sp[1], sp[2])
IsRandom(sp) == sp[1] \in {"randomS", "randomQ"}
HasHelper(sp) == sp[2] >= 4

VARIABLES rng,        \* <<seed, drawsSince>>
          objs,       \* sequence of live objects: [spec, made (tokens consumed by Create), got (getter -> tokens)]
          seen        \* value (token sequence) first observed for every <<spec, what>>; what = "create" or a getter
vars == <<rng, objs, seen>>

Init == rng \in {<<s, 0>> : s \in UserSeeds} /\ objs = <<>> /\ seen = <<>>

Seed(r, s) == <<s, 0>>
Draw(r) == <<r[1], r[2] + 1>>
Token(r) == r            \* the value drawn in generator state r

(* one library step "seed(c); draw": returns <<generator', token>> *)
SeededDraw(r, c) == <<Draw(Seed(r, c)), Token(Seed(r, c))>>
UnseededDraw(r) == <<Draw(r), Token(r)>>

RECURSIVE LevelDraws(_, _)
LevelDraws(r, n) == IF n = 0 THEN <<r, <<>>>>
                    ELSE LET d == SeededDraw(r, 15)
                             rest == LevelDraws(d[1], n - 1)
                         IN <<rest[1], <<d[2]>> \o rest[2]>>

CreateEffect(r, sp) ==
  LET a == LevelDraws(r, Levels(sp))
      b == IF IsRandom(sp) THEN (IF Bug = "unseededRandom" THEN UnseededDraw(a[1]) ELSE SeededDraw(a[1], 0)) ELSE <<a[1], <<-2, 0>>>>
      c == IF HasHelper(sp)
           THEN (IF Bug = "unseededHelper" THEN UnseededDraw(b[1]) ELSE SeededDraw(b[1], 1))
           ELSE <<b[1], <<-2, 0>>>>
  IN <<c[1], a[2] \o <<b[2], c[2]>>>>

Record(sn, key, val) == IF key \in DOMAIN sn THEN sn ELSE (key :> val) @@ sn

Create(sp) == /\ Len(objs) < MaxObjs
              /\ LET e == CreateEffect(rng, sp) IN
                   /\ rng' = e[1]
                   /\ objs' = Append(objs, [spec |-> sp, made |-> e[2]])
                   /\ seen' = Record(seen, <<sp, "create">>, e[2])
Get(i, g) == /\ i \in 1 .. Len(objs)
             /\ LET e == IF Bug = "getterDraws" THEN UnseededDraw(rng) ELSE <<rng, <<-1, 0>>>> IN
                  /\ rng' = e[1]
                  /\ seen' = Record(seen, <<objs[i].spec, g>>, <<objs[i].made, e[2]>>)
             /\ UNCHANGED objs
UserSeed(s) == rng' = Seed(rng, s) /\ UNCHANGED <<objs, seen>>
UserDraw == rng[2] < MaxDraws /\ rng' = Draw(rng) /\ UNCHANGED <<objs, seen>>
Drop == Len(objs) > 0 /\ objs' = Tail(objs) /\ UNCHANGED <<rng, seen>>

Next == (\E sp \in Specs : Create(sp)) \/ (\E i \in 1 .. MaxObjs, g \in Getters : Get(i, g))
        \/ (\E s \in UserSeeds : UserSeed(s)) \/ UserDraw \/ Drop
Spec == Init /\ [][Next]_vars

(* ---- properties ---- *)
(* same specification => same value, whatever happened before (in particular whatever the generator state) *)
Reproducible == \A i \in 1 .. Len(objs) : seen[<<objs[i].spec, "create">>] = objs[i].made
(* action form: a value, once observed, is what every later call of the same thing returns *)
HistoryIndependent ==
  [][ /\ \A sp \in Specs : (Len(objs') = Len(objs) + 1 /\ objs'[Len(objs')].spec = sp /\ <<sp, "create">> \in DOMAIN seen)
                               => objs'[Len(objs')].made = seen[<<sp, "create">>]
      /\ \A k \in DOMAIN seen : seen'[k] = seen[k] ]_vars
GettersPure == [][ (\E i \in 1 .. Len(objs), g \in Getters : <<objs[i].spec, g>> \in DOMAIN seen' /\ <<objs[i].spec, g>> \notin DOMAIN seen)
                     => (rng' = rng \/ Bug = "getterDraws") ]_vars
GetterValueFixed == \A i \in 1 .. Len(objs), g \in Getters :
   <<objs[i].spec, g>> \in DOMAIN seen => seen[<<objs[i].spec, g>>][1] = objs[i].made /\ seen[<<objs[i].spec, g>>][2] = <<-1, 0>>
=============================================================================
