
