------------------------------- MODULE IntGeom -------------------------------
(***************************************************************************)
(* Integer geometry shared by C10 / C11: vectors are triples of integers,  *)
(* a rotation is an integer quaternion <<x, y, z, w>> (scalar LAST, as the *)
(* implementation and scipy use it) with x^2+y^2+z^2+w^2 = n^2; its        *)
(* rotation matrix times n^2 is an integer matrix.                         *)
(***************************************************************************)
EXTENDS Integers, Sequences

Dot(u, v) == u[1] * v[1] + u[2] * v[2] + u[3] * v[3]
VAdd(u, v) == <<u[1] + v[1], u[2] + v[2], u[3] + v[3]>>
VSub(u, v) == <<u[1] - v[1], u[2] - v[2], u[3] - v[3]>>
VScale(c, u) == <<c * u[1], c * u[2], c * u[3]>>
Norm2(u) == Dot(u, u)
QNorm2(q) == q[1] * q[1] + q[2] * q[2] + q[3] * q[3] + q[4] * q[4]

(* n^2 * R(q), rows *)
RotN2(q) ==
  LET x == q[1] y == q[2] z == q[3] w == q[4] n2 == QNorm2(q) IN
  << <<n2 - 2 * (y * y + z * z), 2 * (x * y - z * w), 2 * (x * z + y * w)>>,
     <<2 * (x * y + z * w), n2 - 2 * (x * x + z * z), 2 * (y * z - x * w)>>,
     <<2 * (x * z - y * w), 2 * (y * z + x * w), n2 - 2 * (x * x + y * y)>> >>
MatVec(M, v) == <<Dot(M[1], v), Dot(M[2], v), Dot(M[3], v)>>
Transpose(M) == << <<M[1][1], M[2][1], M[3][1]>>, <<M[1][2], M[2][2], M[3][2]>>, <<M[1][3], M[2][3], M[3][3]>> >>
(* n^2 * (R(q) v) *)
RotateN2(q, v) == MatVec(RotN2(q), v)
=============================================================================
