------------------------------ MODULE FullIndex ------------------------------
(***************************************************************************)
(* C09.  The one cell order of the full grid:  n = (t*nO + o)*nB + b.      *)
(* Operational model of the implementation:                                *)
(*   positions  = tile(directions, nT) x repeat(radii, nO)   (shell-major) *)
(*   full array = for p in positions: for b in rotations: emit (p, b)      *)
(*   helpers    = tile(0..nB-1, nT*nO)[idx], repeat(0..nT*nO-1, nB)[idx]   *)
(*   decompose  = order-preserving de-duplication of the three columns     *)
(* Declarative: Row(n) = (o, t, b) by div / mod.                           *)
(***************************************************************************)
EXTENDS Integers, Sequences, FiniteSets, TLC

(* ---- pure operators, parameterised (used by the model and by the trace spec) ---- *)
RowOf(n, nO, nB) == [o |-> (n \div nB) % nO, t |-> (n \div nB) \div nO, b |-> n % nB]

RECURSIVE Tile(_, _)
Tile(s, reps) == IF reps = 0 THEN <<>> ELSE s \o Tile(s, reps - 1)
RECURSIVE RepeatEach(_, _)
RepeatEach(s, reps) == IF s = <<>> THEN <<>> ELSE [i \in 1 .. reps |-> Head(s)] \o RepeatEach(Tail(s), reps)
Arange(n) == [i \in 1 .. n |-> i - 1]

RECURSIVE Dedup(_, _)
Dedup(s, seen) == IF s = <<>> THEN <<>>
                  ELSE IF Head(s) \in seen THEN Dedup(Tail(s), seen)
                  ELSE <<Head(s)>> \o Dedup(Tail(s), seen \cup {Head(s)})

OpPositions(nT, nO, bug) ==      \* sequence of [o, t]
  IF bug = "directionMajor"
  THEN LET os == RepeatEach(Arange(nO), nT) ts == Tile(Arange(nT), nO) IN [i \in 1 .. nT * nO |-> [o |-> os[i], t |-> ts[i]]]
  ELSE LET os == Tile(Arange(nO), nT) ts == RepeatEach(Arange(nT), nO) IN [i \in 1 .. nT * nO |-> [o |-> os[i], t |-> ts[i]]]

OpArray(nT, nO, nB, bug) ==
  LET pos == OpPositions(nT, nO, bug)
      n == nT * nO * nB
  IN IF bug = "rotationMajor"
     THEN [i \in 1 .. n |-> [o |-> pos[((i - 1) % (nT * nO)) + 1].o, t |-> pos[((i - 1) % (nT * nO)) + 1].t, b |-> (i - 1) \div (nT * nO)]]
     ELSE [i \in 1 .. n |-> [o |-> pos[((i - 1) \div nB) + 1].o, t |-> pos[((i - 1) \div nB) + 1].t, b |-> (i - 1) % nB]]

OpQuatIndex(nT, nO, nB, idx, bug) ==
  LET table == Tile(Arange(IF bug = "strideNO" THEN nO ELSE nB), nT * nO * nB) IN [i \in 1 .. Len(idx) |-> table[idx[i] + 1]]
OpPosIndex(nT, nO, nB, idx, bug) ==
  LET table == RepeatEach(Arange(nT * nO), IF bug = "strideNO" THEN nO ELSE nB) \o [i \in 1 .. nT * nO * nB |-> -1]
  IN [i \in 1 .. Len(idx) |-> table[idx[i] + 1]]

(* ---- the model ---- *)
CONSTANTS MaxT, MaxO, MaxB, MaxIdx, Bug

VARIABLES nT, nO, nB, idx, phase
vars == <<nT, nO, nB, idx, phase>>

Init == /\ nT \in 1 .. MaxT /\ nO \in 1 .. MaxO /\ nB \in 1 .. MaxB
        /\ idx \in UNION {[1 .. L -> 0 .. (MaxIdx - 1)] : L \in 0 .. 2} \cup {Arange(MaxIdx)}
        /\ phase = "spec"
Build == phase = "spec" /\ phase' = "built" /\ UNCHANGED <<nT, nO, nB, idx>>
Spec == Init /\ [][Build]_vars

N == nT * nO * nB
Arr == OpArray(nT, nO, nB, Bug)
ValidIdx == \A i \in 1 .. Len(idx) : idx[i] < N

RowOrder == \A n \in 0 .. (N - 1) : Arr[n + 1] = RowOf(n, nO, nB)
Bijection == Cardinality({Arr[i] : i \in 1 .. N}) = N
HelpersAreDivMod == ValidIdx =>
   /\ OpQuatIndex(nT, nO, nB, idx, Bug) = [i \in 1 .. Len(idx) |-> idx[i] % nB]
   /\ OpPosIndex(nT, nO, nB, idx, Bug) = [i \in 1 .. Len(idx) |-> idx[i] \div nB]
DecomposeIsIdentity ==
   /\ Dedup([i \in 1 .. N |-> Arr[i].o], {}) = Arange(nO)
   /\ Dedup([i \in 1 .. N |-> Arr[i].b], {}) = Arange(nB)
   /\ Dedup([i \in 1 .. N |-> Arr[i].t], {}) = Arange(nT)
=============================================================================
