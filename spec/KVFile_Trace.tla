---------------------------- MODULE KVFile_Trace ----------------------------
(***************************************************************************)
(* Growth G07, code -> spec.  One history per tid on ONE real file edited  *)
(* and read by workflow/snakemake_utils.py; one record per call, logged    *)
(* after the call with the file's projection:                              *)
(*  [tid, op ("init" | "modify" | "read" | "find"), p (key), v,            *)
(*   out (value read, 0 = None), outcmt (find: the returned text still     *)
(*   carries the comment), lines <<[key, val, cmt]>> (the file after the   *)
(*   call, one entry per line), err]                                       *)
(* Every record takes the operational model's step from the state the      *)
(* previous record left (the state is the file).                           *)
(***************************************************************************)
EXTENDS Integers, Sequences, FiniteSets, SequencesExt, TLC, Json, IOUtils

K == INSTANCE KVFile WITH Keys <- {}, Vals <- {}, MaxLines <- 0, RequirePrefixFree <- FALSE, file <- <<>>, lastRead <- 0, lastOp <- <<>>
Log == JsonDeserialize(IOEnv.TRACE_FILE)
VARIABLES l, file
Rec == Log[l]
AsFile(s) == [i \in 1 .. Len(s) |-> [key |-> s[i].key, val |-> s[i].val, cmt |-> s[i].cmt]]

Clause(r, f) ==
  IF r.err # "" THEN "exception:" \o r.err
  ELSE CASE r.op = "init" -> "ok"
    [] r.op = "modify" -> IF AsFile(r.lines) = K!ModifyResult(f, r.p, r.v) THEN "ok"
                          ELSE "modify_mdrun: the file is not 'first line starting with the parameter replaced, else appended'"
    [] r.op = "read" -> IF AsFile(r.lines) # f THEN "read_from_mdrun changed the file"
                        ELSE IF r.out # K!ReadResult(f, r.p) THEN "read_from_mdrun is not the value of the first line starting with the parameter"
                        ELSE "ok"
    [] r.op = "find" -> IF AsFile(r.lines) # f THEN "find_config_parameter_value changed the file"
                        ELSE IF <<r.out, r.outcmt>> # K!FindResult(f, r.p) THEN "find_config_parameter_value is not the text after '=' of the first line starting with the parameter"
                        ELSE "ok"
    [] OTHER -> "MACHINERY: unknown op"

Init == l = 1 /\ file = <<>> /\ TLCSet(1, 0)
Step == /\ l <= Len(Log)
        /\ LET f == IF Rec.op = "init" THEN <<>> ELSE file
               c == Clause(Rec, f)
           IN /\ (IF c = "ok" THEN TRUE ELSE PrintT(<<"REJECT", Rec.tid, c, l>>))
              /\ file' = IF Rec.err = "" THEN AsFile(Rec.lines) ELSE f       \* continue from what the file really is
        /\ TLCSet(1, l)
        /\ l' = l + 1
Spec == Init /\ [][Step]_<<l, file>>
AllConsumed == TLCGet(1) = Len(Log)
=============================================================================
