SPECIFICATION Spec
POSTCONDITION AllConsumed
