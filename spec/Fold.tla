--------------------------------- MODULE Fold ---------------------------------
(***************************************************************************)
(* C04 (also the rotation block of C02 / C14).  Folding a matrix over the  *)
(* 2N points  q_0..q_{N-1}, -q_0..-q_{N-1}  of the quaternion sphere onto  *)
(* the N rotations.  anti(i) = (i + N) mod 2N.                             *)
(*                                                                         *)
(* Declarative: rotations i # j are adjacent iff the cells of {q_i,-q_i}   *)
(* and {q_j,-q_j} touch, i.e. R(i,j) or R(i, j+N) (R is symmetric and      *)
(* closed under anti, so the other two combinations add nothing); the      *)
(* entry is the value of the touching pair when there is exactly one.      *)
(*                                                                         *)
(* Operational (voronoi.py:366-401): build ind2opp[d] = index of -q_d,     *)
(* guarded by the TRUTH VALUE of the index array; sweep every row in       *)
(* column order copying adj[i][ind2opp[j]] := adj[i][j] in place for every *)
(* non-zero adj[i][j]; keep the rows and columns of the upper indices.     *)
(***************************************************************************)
EXTENDS Integers, Sequences, FiniteSets, TLC

CONSTANTS N, Weights, Bug,     \* Bug: "none" | "zeroIndexFalsy" | "rowsOnly"
          AllowSelfTouch     \* may the cell of q_i touch the cell of -q_i ? (only possible for tiny grids)

P2 == 0 .. (2 * N - 1)
P1 == 0 .. (N - 1)
anti(i) == (i + N) % (2 * N)

(* orbits of unordered pairs under anti *)
UPairs == {p \in P2 \X P2 : p[1] < p[2]}
Canon(p) == LET q == <<anti(p[1]), anti(p[2])>>
                qs == IF q[1] < q[2] THEN q ELSE <<q[2], q[1]>>
            IN IF p[1] < qs[1] \/ (p[1] = qs[1] /\ p[2] <= qs[2]) THEN p ELSE qs
Orbits == {Canon(p) : p \in UPairs}

VARIABLES M,      \* the full-sphere matrix: function P2 x P2 -> 0 (no entry) or a weight
          out,    \* folded N x N matrix
          phase
vars == <<M, out, phase>>

Ordered(a, b) == IF a < b THEN <<a, b>> ELSE <<b, a>>
FullFrom(w) == [i \in P2 |-> [j \in P2 |-> IF i = j THEN 0 ELSE w[Canon(Ordered(i, j))]]]

Init == /\ \E w \in [Orbits -> {0} \cup Weights] :
              /\ AllowSelfTouch \/ \A i \in P1 : w[Canon(<<i, anti(i)>>)] = 0
              /\ M = FullFrom(w)
        /\ out = <<>> /\ phase = "full"

(* ------------------------------ operational ------------------------------ *)
HasOpp(d) == IF Bug = "zeroIndexFalsy" THEN anti(d) # 0 ELSE TRUE     \* `if opp_ind:` is false for the index array [0]

RECURSIVE SweepRow(_, _)
SweepRow(row, j) ==        \* row: function P2 -> value; columns processed in increasing order, in place
  IF j > 2 * N - 1 THEN row
  ELSE IF row[j] # 0 /\ HasOpp(j) THEN SweepRow([row EXCEPT ![anti(j)] = row[j]], j + 1)
  ELSE SweepRow(row, j + 1)

OpFold(m) == LET swept == [i \in P2 |-> SweepRow(m[i], 0)]
             IN [i \in P1 |-> [j \in P1 |-> swept[i][j]]]

(* ------------------------------ declarative ------------------------------ *)
Touch(m, i, j) == {v \in {m[i][j], m[i][anti(j)]} : v # 0}
DeclAdjacent(m, i, j) == i # j /\ Touch(m, i, j) # {}
DeclOK(m, o) == \A i, j \in P1 :
   /\ (o[i][j] # 0) <=> DeclAdjacent(m, i, j)
   /\ (DeclAdjacent(m, i, j) /\ ~(m[i][j] # 0 /\ m[i][anti(j)] # 0)) => o[i][j] \in Touch(m, i, j)
   /\ o[i][j] # 0 => o[i][j] \in Touch(m, i, j) \cup {m[i][anti(i)]}

DoFold == /\ phase = "full" /\ phase' = "folded"
          /\ out' = IF Bug = "rowsOnly" THEN [i \in P1 |-> [j \in P1 |-> M[i][j]]] ELSE OpFold(M)
          /\ UNCHANGED M
Spec == Init /\ [][DoFold]_vars

Folded == phase = "folded"
OperationalIsDeclarative == Folded => DeclOK(M, out)
Symmetric == Folded => \A i, j \in P1 : (out[i][j] # 0) <=> (out[j][i] # 0)
EmptyDiagonal == Folded => \A i \in P1 : out[i][i] = 0
(* with AllowSelfTouch the in-place sweep writes the diagonal: a design limit of the fold, shown by
   the negative config Fold_selftouch.cfg; it needs a cell that touches its own antipodal copy *)
=============================================================================
