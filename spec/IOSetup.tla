------------------------------- MODULE IOSetup -------------------------------
(***************************************************************************)
(* Growth G15 (b).  molgri.scripts.set_up_io as a state machine over the   *)
(* working directory.  State: which of the eleven input / output folders   *)
(* exist, which files lie in them (content class "user" or "example") and  *)
(* what the package's paths file holds.  Setup (freshly_create_all_folders,*)
(* called first by EVERY command-line entry point) creates what is missing,*)
(* never touches what is there and rewrites the paths file with the        *)
(* defaults; CopyExamples sorts the package's example files into the       *)
(* pseudotrajectory and input folders: *.xtc and *.gro with "ico" in the   *)
(* name -> pt_files, other *.gro / *.pdb / *.xvg / *.xyz -> input, the     *)
(* rest nowhere; a file of the same name is overwritten.  The environment  *)
(* (the user) adds files, removes folder trees and edits the paths file.   *)
(* Negative configurations (Bug): Setup empties existing folders (what the *)
(* helper _create_dir_or_empty_it of io.py would do); every .gro goes to   *)
(* the pt folder.                                                          *)
(***************************************************************************)
EXTENDS Integers, Sequences, FiniteSets, TLC

Folders == {"output/data/energies", "output/data/pt_files", "input", "output/figures", "output/animations", "output/data/logging",
            "output/data/autosave", "input/logbook", "output/data/traj_files", "experiments", "molgri/examples"}
PT == "output/data/pt_files"
INP == "input"
(* the folders that disappear when the tree rooted at r is removed *)
Within(r) == CASE r = "input" -> {"input", "input/logbook"}
               [] r = "output" -> {f \in Folders : f \notin {"input", "input/logbook", "experiments", "molgri/examples"}}
               [] r = "output/data" -> {"output/data/energies", "output/data/pt_files", "output/data/logging", "output/data/autosave", "output/data/traj_files"}
               [] r = "molgri" -> {"molgri/examples"}
               [] OTHER -> {r}
Roots == Folders \cup {"output", "output/data", "molgri"}

(* an example file: [id, ext, ico]; where copy_examples puts it *)
Dest(n, bug) == IF n.ext = "xtc" \/ (n.ext = "gro" /\ (n.ico \/ bug = "everyGroIsPt")) THEN PT
                ELSE IF n.ext \in {"gro", "pdb", "xvg", "xyz"} THEN INP ELSE "none"

SetupResult(st, bug) == [dirs |-> Folders, paths |-> "defaults",
                         files |-> IF bug = "setupEmpties" THEN [k \in {} |-> ""] ELSE st.files]
CanCopy(st) == {PT, INP} \subseteq st.dirs
CopyResult(st, ex, bug) ==
  LET new == {<<Dest(n, bug), n.id>> : n \in {m \in ex : Dest(m, bug) # "none"}}
  IN [st EXCEPT !.files = [k \in DOMAIN st.files \cup new |-> IF k \in new THEN "example" ELSE st.files[k]]]
AddResult(st, f, id) == [st EXCEPT !.files = [k \in DOMAIN st.files \cup {<<f, id>>} |-> IF k = <<f, id>> THEN "user" ELSE st.files[k]]]
RemoveResult(st, r) == [st EXCEPT !.dirs = st.dirs \ Within(r),
                                  !.files = [k \in {q \in DOMAIN st.files : q[1] \notin Within(r)} |-> st.files[k]]]

(* example pool of the model configuration: ids 1..4; id 1 collides with a user file id *)
ExamplesSmall == {[id |-> 1, ext |-> "gro", ico |-> TRUE], [id |-> 2, ext |-> "gro", ico |-> FALSE], [id |-> 3, ext |-> "xtc", ico |-> FALSE], [id |-> 4, ext |-> "txt", ico |-> TRUE]}
CONSTANTS Examples, UserIds, UseFolders, UseRoots, MaxSteps, Bug
VARIABLES st, last, steps
vars == <<st, last, steps>>

Init == st = [dirs |-> {}, files |-> [k \in {} |-> ""], paths |-> "committed"] /\ last = "none" /\ steps = 0
Setup == st' = SetupResult(st, Bug) /\ last' = "Setup"
CopyExamples == CanCopy(st) /\ st' = CopyResult(st, Examples, Bug) /\ last' = "Copy"
UserAdd(f, id) == f \in st.dirs /\ st' = AddResult(st, f, id) /\ last' = "Add"
UserRemove(r) == Within(r) \cap st.dirs # {} /\ st' = RemoveResult(st, r) /\ last' = "Remove"
UserEditsPaths == st.paths # "other" /\ st' = [st EXCEPT !.paths = "other"] /\ last' = "Edit"
Next == /\ steps < MaxSteps /\ steps' = steps + 1
        /\ \/ Setup \/ CopyExamples \/ UserEditsPaths
           \/ \E f \in UseFolders, id \in UserIds : UserAdd(f, id)
           \/ \E r \in UseRoots : UserRemove(r)
Spec == Init /\ [][Next]_vars

AfterSetupEverythingIsThere == last = "Setup" => st.dirs = Folders /\ st.paths = "defaults"
FilesLieInExistingFolders == \A k \in DOMAIN st.files : k[1] \in st.dirs
SetupKeepsWhatIsThere == [][last' = "Setup" => /\ st.dirs \subseteq st'.dirs /\ st'.files = st.files]_vars
SetupIsIdempotent == [][(last = "Setup" /\ last' = "Setup") => st' = st]_vars
ExamplesAreSorted == [][last' = "Copy" => /\ \A n \in Examples : Dest(n, "none") # "none" => (<<Dest(n, "none"), n.id>> \in DOMAIN st'.files /\ st'.files[<<Dest(n, "none"), n.id>>] = "example")
                                          /\ \A k \in DOMAIN st'.files : (k \in DOMAIN st.files /\ st'.files[k] = st.files[k]) \/ (\E n \in Examples : k = <<Dest(n, "none"), n.id>>)
                                          /\ st'.dirs = st.dirs /\ st'.paths = st.paths]_vars
=============================================================================
