SPECIFICATION Spec
POSTCONDITION AllConsumed
