----------------------------- MODULE Quat_Trace -----------------------------
(***************************************************************************)
(* Growth G04, code -> spec.  One record per call of a real helper of      *)
(* molgri.space.utils / rotations / rotobj on Hurwitz quaternions (doubled *)
(* integer coordinates, the harness divides by 2 before the call and       *)
(* checks that twice the answer is integral: field exact):                 *)
(*  upper   q -> out            q_in_upper_sphere                          *)
(*  hemi    rows, upper -> out  hemisphere_quaternion_set                  *)
(*  inverse q -> out            find_inverse_quaternion                    *)
(*  same    a, b -> out         two_sets_of_quaternions_equal              *)
(*  inarr   q, rows -> out      quaternion_in_array                        *)
(*  dist    p, q -> out6        distance_between_quaternions / (pi/6)      *)
(*  rowk    rows, q -> idx, is  which_row_is_k, k_is_a_row                 *)
(*  cells8  rows -> out         points4D_2_8cells (index lists)            *)
(*  q2grid  q -> out            quaternion2grid                            *)
(*  grid2q  q -> out            grid2quaternion(quaternion2grid(q))        *)
(*  tv2r    x, y -> out         two_vectors2rot                            *)
(*  cover   rows -> out         hemisphere set, then SphereGrid4Dim double *)
(*                              cover                                      *)
(*  kmin / kmax  arr, k -> out  k_argmin_in_array / k_argmax_in_array      *)
(***************************************************************************)
EXTENDS Integers, Sequences, FiniteSets, TLC, Json, IOUtils

Q == INSTANCE Quat WITH MaxRows <- 0, Bug <- "none", rows <- <<>>, phase <- "raw", nHalf <- 0
Log == JsonDeserialize(IOEnv.TRACE_FILE)
VARIABLE l
Rec == Log[l]

T4(s) == <<s[1], s[2], s[3], s[4]>>
T3(s) == <<s[1], s[2], s[3]>>
Rows(s) == [i \in 1 .. Len(s) |-> T4(s[i])]
M3(s) == [i \in 1 .. 3 |-> T3(s[i])]
SetOf(s) == {s[i] : i \in 1 .. Len(s)}

Clause(r) ==
  IF r.err # "" THEN "exception:" \o r.err
  ELSE IF ~r.exact THEN "answer is not on the lattice"
  ELSE CASE r.ev = "upper" -> IF r.out = Q!Upper(T4(r.q)) THEN "ok" ELSE "q_in_upper_sphere is not 'first non-zero coordinate positive'"
    [] r.ev = "hemi" -> IF Rows(r.out) = Q!Hemi(Rows(r.rows), r.upper) THEN "ok"
                        ELSE "hemisphere_quaternion_set is not the row-wise choice of q or -q in the requested half"
    [] r.ev = "inverse" -> IF T4(r.out) = Q!Neg(T4(r.q)) THEN "ok" ELSE "find_inverse_quaternion is not -q"
    [] r.ev = "same" -> IF r.out = Q!SetsEqual(Rows(r.a), Rows(r.b)) THEN "ok" ELSE "two_sets_of_quaternions_equal is not row-wise equality up to sign"
    [] r.ev = "inarr" -> IF r.out = Q!InArray(T4(r.q), Rows(r.rows)) THEN "ok" ELSE "quaternion_in_array is not membership up to sign"
    [] r.ev = "dist" -> IF r.out6 = Q!Dist6(T4(r.p), T4(r.q)) THEN "ok" ELSE "distance_between_quaternions is not the sign-folded angle"
    [] r.ev = "rowk" -> LET want == {i \in 0 .. (Len(r.rows) - 1) : T4(r.rows[i + 1]) = T4(r.q)}
                        IN IF SetOf(r.idx) # want \/ Len(r.idx) # Cardinality(want) THEN "which_row_is_k is not the set of equal rows"
                           ELSE IF r.is # (want # {}) THEN "k_is_a_row disagrees with which_row_is_k" ELSE "ok"
    [] r.ev = "cells8" -> LET want == Q!Cells8(Rows(r.rows))
                          IN IF \A c \in 1 .. 8 : {i + 1 : i \in SetOf(r.out[c])} = want[c] /\ Len(r.out[c]) = Cardinality(want[c]) THEN "ok"
                             ELSE "points4D_2_8cells is not the split by sign of each coordinate"
    [] r.ev = "q2grid" -> IF M3(r.out) = Q!GridOf(T4(r.q)) THEN "ok" ELSE "quaternion2grid is not the images of the basis vectors"
    [] r.ev = "grid2q" -> IF Q!SameRot(T4(r.out), T4(r.q)) THEN "ok" ELSE "grid2quaternion o quaternion2grid is not the identity on rotations"
    [] r.ev = "tv2r" -> IF M3(r.out) = Q!TwoVec(T3(r.x), T3(r.y)) THEN "ok" ELSE "two_vectors2rot is not I + K + K^2 (identity / minus identity for parallel vectors)"
    [] r.ev = "cover" -> LET h == Q!Hemi(Rows(r.rows), TRUE)
                             want == h \o [i \in 1 .. Len(h) |-> Q!Neg(h[i])]
                         IN IF Rows(r.out) = want THEN "ok" ELSE "double cover is not the canonical rows followed by their negatives in order"
    [] r.ev \in {"kmin", "kmax"} ->
          LET S == SetOf(r.out)
              n == Len(r.arr)
              val(i) == IF r.ev = "kmin" THEN r.arr[i + 1] ELSE -r.arr[i + 1]
          IN IF Len(r.out) # r.k \/ Cardinality(S) # r.k \/ ~(S \subseteq 0 .. (n - 1)) THEN "k_arg*_in_array does not return k distinct indices"
             ELSE IF \E i \in S : \E j \in (0 .. (n - 1)) \ S : val(j) < val(i) THEN "k_arg*_in_array misses a more extreme entry"
             ELSE "ok"
    [] OTHER -> "MACHINERY: unknown event"

Init == l = 1 /\ TLCSet(1, 0)
Step == /\ l <= Len(Log)
        /\ LET c == Clause(Rec) IN IF c = "ok" THEN TRUE ELSE PrintT(<<"REJECT", Rec.tid, c, 0>>)
        /\ TLCSet(1, l)
        /\ l' = l + 1
Spec == Init /\ [][Step]_l
AllConsumed == TLCGet(1) = Len(Log)
=============================================================================
