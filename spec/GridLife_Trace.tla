---------------------------- MODULE GridLife_Trace ----------------------------
(***************************************************************************)
(* C08 / C07, code -> spec.  Events recorded in ONE python process whose    *)
(* numpy.random.seed / shuffle / random are wrapped by the driver:          *)
(*  Fresh   [alg, n, what, digest]   reference digests from FRESH processes *)
(*                                   (other PYTHONHASHSEED, scrambled RNG)  *)
(*  Create  [alg, n, rng <<[kind, arg]>>, digest, err]                      *)
(*  Get     [alg, n, what, rng, digest, err]                                *)
(*  UserSeed / UserDraw / Drop       (driver actions between library calls) *)
(*  Rows    [alg, n, ids <<int>>, poly <<int>>]   per-row digests of the    *)
(*          grid and of the polytope's index-ordered (half) projections     *)
(*  Grid    [alg, n, dim, rows, norm12, mindist6, dmin3, signs, anti6,      *)
(*           coverNeg, first <<int>>, byname]  static facts of one grid     *)
(* State: the reference table and the longest row sequence seen per         *)
(* algorithm.                                                               *)
(***************************************************************************)
EXTENDS Integers, Sequences, FiniteSets, TLC, Json, IOUtils, SequencesExt

L == INSTANCE GridLife WITH Specs <- {}, Getters <- {}, MaxObjs <- 0, MaxDraws <- 0, UserSeeds <- {}, Bug <- "none",
                            rng <- <<0, 0>>, objs <- <<>>, seen <- <<>>
Log == JsonDeserialize(IOEnv.TRACE_FILE)
VARIABLES l, fresh, rows
vars == <<l, fresh, rows>>
Ev == Log[l]
Reject(c) == PrintT(<<"REJECT", Ev.tid, c, l>>)
Check(c) == IF c = "ok" THEN TRUE ELSE Reject(c)

(* RNG discipline: every draw is immediately preceded by a seed with the documented constant *)
IsDraw(e) == e[1] \in {"shuffle", "random"}
DrawOK(r, i) == i > 1 /\ r[i - 1][1] = "seed" /\
                 (IF r[i][1] = "shuffle" THEN r[i - 1][2] = 15 ELSE r[i - 1][2] \in {0, 1})
Discipline(r) == /\ \A i \in 1 .. Len(r) : IsDraw(r[i]) => DrawOK(r, i)
                 /\ \A i \in 1 .. Len(r) : r[i][1] = "seed" => r[i][2] \in {0, 1, 15}
Shuffles(r) == Cardinality({i \in 1 .. Len(r) : r[i][1] = "shuffle"})
FirstRandomSeed(r) == LET idx == {i \in 1 .. Len(r) : r[i][1] = "random"} IN
                      IF idx = {} THEN -1 ELSE r[(CHOOSE i \in idx : \A j \in idx : i <= j) - 1][2]

Key(e, what) == <<e.alg, e.n, what>>
(* The discipline is HOW the implementation achieves reproducibility; the property itself is about values.  A call
   that violates the discipline but still returns the reference value is therefore not rejected (the driver
   scrambles the generator before every call, so a real dependence on the generator state shows in the digest);
   undisciplined calls are counted by the driver as an advisory. *)
CreateClause(e) ==
  IF e.err # "" THEN "exception:" \o e.err
  ELSE IF Key(e, "array") \notin DOMAIN fresh THEN "ok"
  ELSE IF fresh[Key(e, "array")] # e.digest THEN "coordinates differ from a fresh process (depends on history / generator state)"
  ELSE "ok"
Disciplined(e) == Discipline(e.rng) /\ (e.ev # "Create" \/ Shuffles(e.rng) = L!LevelsOf(e.alg, e.n))
GetClause(e) ==
  IF e.err # "" THEN "exception:" \o e.err
  ELSE IF Key(e, e.what) \notin DOMAIN fresh THEN "ok"
  ELSE IF fresh[Key(e, e.what)] # e.digest THEN "getter value differs from the first call on a fresh object: " \o e.what
  ELSE "ok"

PrefixRel(a, b) == IsPrefix(a, b) \/ IsPrefix(b, a)
Longer(a, b) == IF Len(a) >= Len(b) THEN a ELSE b
RowsClause(e) ==
  LET known == IF e.alg \in DOMAIN rows THEN rows[e.alg] ELSE <<>> IN
  IF e.err # "" THEN "exception:" \o e.err
  ELSE IF Len(e.ids) # e.n THEN "grid does not have N rows"
  ELSE IF ~PrefixRel(e.ids, known) THEN "grid is not a prefix of / prefixed by the other sizes of the same algorithm"
  ELSE "ok"
(* mechanism, advisory only: a polytope grid is the first N index-ordered (canonical-half) polytope nodes *)
RowsFromPolytope(e) == Len(e.poly) = 0 \/ IsPrefix(e.ids, e.poly)

(* separation bounds, computed without overflow: largest x (in 1e-3) with x^2 N <= 10^6, resp. x^3 <= 216*10^6 / N *)
Bound3(n) == CHOOSE x \in 0 .. 1000 : x * x * n <= 1000000 /\ (x = 1000 \/ (x + 1) * (x + 1) * n > 1000000)
Bound4(n) == CHOOSE x \in 0 .. 600 : x * x * x <= 216000000 \div n /\ (x = 600 \/ (x + 1) * (x + 1) * (x + 1) > 216000000 \div n)
RECURSIVE CanonFrom(_, _)
CanonFrom(s, i) == IF i > Len(s) THEN FALSE ELSE IF s[i] > 0 THEN TRUE ELSE IF s[i] < 0 THEN FALSE ELSE CanonFrom(s, i + 1)
GridClause(e) ==
  IF e.err # "" THEN "exception:" \o e.err
  ELSE IF e.rows # e.n THEN "number of rows"
  ELSE IF e.norm12 > 1000 THEN "a row is not of unit norm"
  ELSE IF e.n > 1 /\ e.mindist6 <= 0 THEN "two rows coincide"
  ELSE IF e.n > 1 /\ e.alg \in {"ico", "cube3D"} /\ e.dmin3 + 1 < Bound3(e.n) THEN "direction grid less separated than 1/sqrt(N)"
  ELSE IF e.n > 1 /\ e.alg \in {"cube4D", "fulldiv"} /\ e.dmin3 + 1 < Bound4(e.n) THEN "rotation grid less separated than 0.6/cbrt(N)"
  ELSE IF e.dim = 4 /\ \E i \in 1 .. Len(e.signs) : ~CanonFrom(e.signs[i], 1) THEN "a rotation is not in the canonical half"
  ELSE IF e.dim = 4 /\ e.n > 1 /\ e.anti6 <= 0 THEN "two rows represent the same rotation"
  ELSE IF e.dim = 4 /\ ~e.coverNeg THEN "double cover is not the N rows followed by their exact negatives"
  ELSE IF e.n = 1 /\ e.byname /\ e.first # (IF e.dim = 3 THEN <<0, 0, 1>> ELSE <<0, 0, 0, 1>>)
       THEN "a grid requested by name with N = 1 is not the z direction / identity rotation"
  ELSE "ok"

(* C15: Get(obj, "volumes") on a rotation grid.  All quantities are integers logged by the driver:
   share9  = volume / (pi^2 / N) * 1e9 per cell for N < 4 (4 pi / N for directions),
   sumPm   = sum of the N volumes in per-mille of pi^2,
   ratioPm = volume / Monte-Carlo measure of the nearest-rotation cell, per-mille, sigmaPm its standard error,
   firstN  = the N volumes are bitwise the first N of the 2N double-cover volumes *)
VolClause(e) ==
  IF e.err # "" THEN "exception:" \o e.err
  ELSE IF e.len # e.n THEN "number of volumes"
  ELSE IF ~e.positive THEN "non-positive volume"
  ELSE IF e.n < 4 THEN (IF \E i \in 1 .. Len(e.share9) : e.share9[i] < 999999990 \/ e.share9[i] > 1000000010
                        THEN "tiny grid does not return the equal-share estimate" ELSE "ok")
  ELSE IF ~e.firstN THEN "volumes are not the first N of the 2N double-cover volumes"
  ELSE IF e.sumPm < 880 \/ e.sumPm > 1120 THEN "volumes do not sum to pi^2 within 12 %"
  ELSE IF \E i \in 1 .. Len(e.ratioPm) : e.ratioPm[i] + 4 * e.sigmaPm[i] < 700 \/ e.ratioPm[i] - 4 * e.sigmaPm[i] > 1300
       THEN "a cell volume is not within 30 % of the measure of its nearest-rotation region"
  ELSE "ok"

Init == l = 1 /\ fresh = <<>> /\ rows = <<>> /\ TLCSet(1, 0)
Step == /\ l <= Len(Log)
        /\ \/ Ev.ev = "Fresh" /\ fresh' = (Key(Ev, Ev.what) :> Ev.digest) @@ fresh /\ UNCHANGED rows
           \/ Ev.ev = "Create" /\ Check(CreateClause(Ev)) /\ UNCHANGED <<fresh, rows>>
           \/ Ev.ev = "Get" /\ Check(GetClause(Ev)) /\ UNCHANGED <<fresh, rows>>
           \/ Ev.ev \in {"UserSeed", "UserDraw", "Drop"} /\ UNCHANGED <<fresh, rows>>
           \/ Ev.ev = "Rows" /\ Check(RowsClause(Ev)) /\ UNCHANGED fresh
                             /\ (IF Ev.err = "" /\ ~RowsFromPolytope(Ev) THEN PrintT(<<"ADVISORY", Ev.tid, "grid is not the first N index-ordered polytope nodes", l>>) ELSE TRUE)
                             /\ rows' = IF Ev.err = "" /\ RowsClause(Ev) = "ok"
                                        THEN (Ev.alg :> Longer(Ev.ids, IF Ev.alg \in DOMAIN rows THEN rows[Ev.alg] ELSE <<>>)) @@ rows
                                        ELSE rows
           \/ Ev.ev = "Grid" /\ Check(GridClause(Ev)) /\ UNCHANGED <<fresh, rows>>
           \/ Ev.ev = "Volumes" /\ Check(VolClause(Ev)) /\ UNCHANGED <<fresh, rows>>
        /\ l' = l + 1
        /\ TLCSet(1, l)
Spec == Init /\ [][Step]_vars
AllConsumed == TLCGet(1) = Len(Log)
=============================================================================
