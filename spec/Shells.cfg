SPECIFICATION Spec
CONSTANTS
  Pool = {2, 4, 6, 10, 16, 26, 42}
  MaxT = 4
  MaxO = 3
  Bug = "none"
INVARIANT OperationalIsDeclarative
INVARIANT SymmetricCoefficients
INVARIANT Telescoping
INVARIANT BoundariesInterleave
