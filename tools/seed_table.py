#!/venv/bin/python
"""Fill seeded/<id>/meta.json 'needs_to_manifest' from seeded/needs_to_manifest.json and print the
markdown table 'which checks catch which changes' for DESIGN.md."""
import json
from pathlib import Path

ROOT = Path(__file__).resolve().parent.parent
needs = json.loads((ROOT / "seeded" / "needs_to_manifest.json").read_text())
rows = []
for d in sorted((ROOT / "seeded").iterdir()):
    mp = d / "meta.json"
    if not mp.exists():
        continue
    m = json.loads(mp.read_text())
    if d.name in needs:
        m["needs_to_manifest"] = needs[d.name]
        mp.write_text(json.dumps(m, indent=1))
    det = m.get("detection", {})
    caught = [f"{c} ({r['tier']}, {r['wall_s']} s)" for c, r in det.items() if r.get("detected")]
    missed = [f"{c} ({r['tier']})" for c, r in det.items() if not r.get("detected")]
    rows.append((d.name, m["property"], ", ".join(m.get("files", [])), m.get("needs_to_manifest", ""), ", ".join(caught) or "-", ", ".join(missed) or "-"))
print("| seed | property | file | needs, in order to manifest | caught by | not caught by |")
print("|---|---|---|---|---|---|")
for r in rows:
    print("| " + " | ".join(r) + " |")
