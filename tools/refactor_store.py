#!/venv/bin/python
"""Store the property-PRESERVING changes (sub-agent deliverables under /tmp/wt/out3) as refactors/<id>/ and the outcome of
running the quick checks against them (logs written by the cross-check runs) as refactors/results.json; print the DESIGN table."""
import json
import re
import shutil
import sys
from pathlib import Path

ROOT = Path(__file__).resolve().parent.parent
src = Path(sys.argv[1] if len(sys.argv) > 1 else "/tmp/wt/out3")
logs = Path(sys.argv[2] if len(sys.argv) > 2 else "/root/reflogs")
res = {}
for lg in sorted(logs.glob("*.log")):
    for line in lg.read_text().splitlines():
        m = re.match(r"^(C\d\d)/([ABC]) ([CG]\d\d) exit=(\d+)", line)
        if m:
            res.setdefault(f"{m.group(1)}_{m.group(2)}", {})[m.group(3)] = int(m.group(4))
rows = []
for pdir in sorted(src.glob("C??")):
    for x in "ABC":
        d = pdir / x
        if not (d / "patch.diff").exists():
            continue
        rid = f"{pdir.name}_{x}"
        dst = ROOT / "refactors" / rid
        dst.mkdir(parents=True, exist_ok=True)
        for f in ("patch.diff", "notes.md", "demo.py"):
            if (d / f).exists():
                shutil.copy(d / f, dst / f)
        files = sorted(set(re.findall(r"^\+\+\+ b/(\S+)", (d / "patch.diff").read_text(), re.M)))
        first = ""
        if (d / "notes.md").exists():
            txt = [ln.strip("# ").strip() for ln in (d / "notes.md").read_text().splitlines() if ln.strip()]
            first = txt[0][:140] if txt else ""
        r = res.get(rid, {})
        rows.append((rid, ", ".join(f.replace("molgri/", "") for f in files), first.replace("|", "/"),
                     " ".join(sorted(c for c, e in r.items() if e == 0)) or "-", " ".join(sorted(f"{c}(exit {e})" for c, e in r.items() if e != 0)) or "-"))
(ROOT / "refactors" / "results.json").write_text(json.dumps(res, indent=1, sort_keys=True))
print("| change | files | what (first line of its notes) | quick checks run against it: pass | alarm |")
print("|---|---|---|---|---|")
for r in rows:
    print("| " + " | ".join(r) + " |")
print(f"\n{len(rows)} changes, {sum(len(v) for v in res.values())} check runs, {sum(1 for v in res.values() for e in v.values() if e != 0)} alarms", file=sys.stderr)
