#!/bin/bash
# second pass: survivors against every check anchored in the mutated file, until one kills
cd /verif
lane=$1; n=$2
declare -A MAP=( [voronoi.py]="C03 C04 C15 C08 C19 C02 C05 C06 C14" [fullgrid.py]="C05 C09 C19 C02 C06 C14 C11 G06" [transitions.py]="C11 C12 C14 C13 C01 G02 G03"
 [utils.py]="C03 C06 C07 C04 C08 G04" [pts.py]="C10 C11 G05" [polytopes.py]="C18 C07 C08 G01" [rotobj.py]="C19 C07 C08 C03 C04 C15" [translations.py]="C16 C05 C09 C19"
 [io.py]="C20 C14 C10 G05" [naming.py]="C17 G10" [rate_merger.py]="C13" )
i=0
for k in $(cat /root/mut/survivors.txt); do
  i=$((i+1)); [ $((i % n)) -eq $lane ] || continue
  wt=/tmp/rf/s_$k
  rm -rf $wt; git -C /repo worktree prune 2>/dev/null
  git -C /repo worktree add -q --detach $wt HEAD 2>/dev/null || continue
  info=$(/venv/bin/python /root/mut/apply.py $k $wt 2>&1 | tail -1)
  f=$(echo $info | awk '{print $3}' | sed 's#.*/##'); own=$(echo $info | awk '{print $2}')
  killed=""
  for c in ${MAP[$f]}; do
    [ "$c" = "$own" ] && continue
    VERIF_REPO=$wt nice -n 5 ./check $c > /tmp/rf/s_$k.out 2>&1; rc=$?
    if [ $rc != 0 ]; then killed="$c(exit $rc) $(grep -E 'key:' /tmp/rf/s_$k.out | head -1 | cut -c1-120)"; break; fi
  done
  echo "$k $info => ${killed:-SURVIVES ALL (${MAP[$f]})}" >> /root/mut/results2_$lane.txt
  git -C /repo worktree remove --force $wt 2>/dev/null; rm -f /tmp/rf/s_$k.out
done
echo "LANE $lane DONE" >> /root/mut/results2_$lane.txt
