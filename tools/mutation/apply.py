#!/venv/bin/python
"""apply mutant #k of /root/mut/mutants.json to the tree given as argv[2] (line-preserving: only the mutated line is rewritten via ast.unparse of that statement)"""
import ast, json, sys, os
sys.path.insert(0,'/root/mut')
from gen import Apply
k=int(sys.argv[1]); root=sys.argv[2]
m=json.load(open('/root/mut/mutants.json'))[k]
path=os.path.join(root,m['file']); src=open(path).read()
tree=ast.parse(src)
site=tuple(m['site'])
# find the smallest statement containing the site and replace its source text only
target=None
for node in ast.walk(tree):
    if isinstance(node,ast.stmt) and node.lineno<=site[1]<=node.end_lineno:
        if target is None or (node.end_lineno-node.lineno)<(target.end_lineno-target.lineno) or ((node.end_lineno-node.lineno)==(target.end_lineno-target.lineno) and node.lineno>=target.lineno):
            if not isinstance(node,(ast.FunctionDef,ast.ClassDef,ast.For,ast.While,ast.If,ast.With,ast.Try)) : target=node
if target is None:
    for node in ast.walk(tree):
        if isinstance(node,(ast.If,ast.While,ast.For)) and node.lineno==site[1]: target=node
if target is None: print('NOSTMT'); sys.exit(3)
a=Apply(site)
lines=src.split('\n')
if isinstance(target,(ast.If,ast.While,ast.For)):
    # mutate the header expression only
    hdr=target.test if not isinstance(target,ast.For) else target.iter
    old=ast.get_source_segment(src,hdr); new=ast.unparse(a.visit(hdr))
    if not a.done: print('NOTAPPLIED'); sys.exit(3)
    seg=ast.get_source_segment(src,target)
    # replace first occurrence of old in the header line range
    start=sum(len(l)+1 for l in lines[:hdr.lineno-1])+hdr.col_offset
    end=sum(len(l)+1 for l in lines[:hdr.end_lineno-1])+hdr.end_col_offset
    out=src[:start]+new+src[end:]
else:
    new=ast.unparse(a.visit(target))
    if not a.done: print('NOTAPPLIED'); sys.exit(3)
    indent=' '*target.col_offset
    new='\n'.join((indent if i else '')+l for i,l in enumerate(new.split('\n')))
    start=sum(len(l)+1 for l in lines[:target.lineno-1])+target.col_offset
    end=sum(len(l)+1 for l in lines[:target.end_lineno-1])+target.end_col_offset
    out=src[:start]+new+src[end:]
try: ast.parse(out)
except SyntaxError: print('SYNTAX'); sys.exit(3)
open(path,'w').write(out)
print('OK',m['prop'],m['file'],m['site'])
