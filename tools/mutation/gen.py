#!/venv/bin/python
"""Generate first-order mutants inside the line ranges that properties.jsonl anchors each property in."""
import ast, json, re, sys, os, random
REPO='/repo'
props=[json.loads(l) for l in open('/verif/properties.jsonl')]
random.seed(7)
def ranges(p):
    out=[]
    for m in p['anchors']['mechanism']:
        for part in m['where'].split(';'):
            mm=re.match(r'\s*([\w/\.]+):([\d,\s\-]+)',part)
            if not mm: continue
            f=mm.group(1)
            for r in mm.group(2).split(','):
                r=r.strip()
                if '-' in r: a,b=r.split('-'); out.append((f,int(a),int(b)))
                elif r: out.append((f,int(r),int(r)))
    return out
CMP={ast.Lt:ast.LtE, ast.LtE:ast.Lt, ast.Gt:ast.GtE, ast.GtE:ast.Gt, ast.Eq:ast.NotEq, ast.NotEq:ast.Eq}
BIN={ast.Add:ast.Sub, ast.Sub:ast.Add, ast.Mult:ast.Div, ast.Div:ast.Mult, ast.FloorDiv:ast.Div, ast.Mod:ast.FloorDiv}
class Sites(ast.NodeVisitor):
    def __init__(s,lo,hi): s.lo,s.hi,s.sites=lo,hi,[]
    def ok(s,n): return hasattr(n,'lineno') and s.lo<=n.lineno<=s.hi
    def visit_Compare(s,n):
        if s.ok(n) and len(n.ops)==1 and type(n.ops[0]) in CMP: s.sites.append(('cmp',n.lineno,n.col_offset,type(n.ops[0]).__name__))
        s.generic_visit(n)
    def visit_BinOp(s,n):
        if s.ok(n) and type(n.op) in BIN and not isinstance(n.left,ast.Constant) or (s.ok(n) and type(n.op) in BIN and not isinstance(getattr(n.left,'value',None),str)):
            s.sites.append(('bin',n.lineno,n.col_offset,type(n.op).__name__))
        s.generic_visit(n)
    def visit_BoolOp(s,n):
        if s.ok(n): s.sites.append(('bool',n.lineno,n.col_offset,type(n.op).__name__))
        s.generic_visit(n)
    def visit_Constant(s,n):
        if s.ok(n) and isinstance(n.value,(int,float)) and not isinstance(n.value,bool): s.sites.append(('const',n.lineno,n.col_offset,repr(n.value)))
    def visit_UnaryOp(s,n):
        if s.ok(n) and isinstance(n.op,(ast.USub,ast.Not)): s.sites.append(('unary',n.lineno,n.col_offset,type(n.op).__name__))
        s.generic_visit(n)
class Apply(ast.NodeTransformer):
    def __init__(s,site): s.site=site; s.done=False
    def hit(s,n,k): return (not s.done) and s.site[0]==k and getattr(n,'lineno',-1)==s.site[1] and getattr(n,'col_offset',-1)==s.site[2]
    def visit_Compare(s,n):
        if s.hit(n,'cmp'): n.ops=[CMP[type(n.ops[0])]()]; s.done=True; return n
        return s.generic_visit(n)
    def visit_BinOp(s,n):
        if s.hit(n,'bin'): n.op=BIN[type(n.op)](); s.done=True; return n
        return s.generic_visit(n)
    def visit_BoolOp(s,n):
        if s.hit(n,'bool'): n.op=ast.Or() if isinstance(n.op,ast.And) else ast.And(); s.done=True; return n
        return s.generic_visit(n)
    def visit_Constant(s,n):
        if s.hit(n,'const'):
            v=n.value; s.done=True
            return ast.copy_location(ast.Constant(value=(v+1 if isinstance(v,int) else v*1.01+0.001)),n)
        return n
    def visit_UnaryOp(s,n):
        if s.hit(n,'unary'): s.done=True; return n.operand
        return s.generic_visit(n)
def main():
    out=[]
    for p in props:
        for f,lo,hi in ranges(p):
            path=os.path.join(REPO,f)
            if not path.endswith('.py') or not os.path.exists(path): continue
            src=open(path).read(); tree=ast.parse(src)
            v=Sites(lo,hi); v.visit(tree)
            seen=set()
            for site in v.sites:
                if site in seen: continue
                seen.add(site)
                out.append(dict(prop=p['id'],file=f,site=site))
    # sample per property
    byp={}
    for m in out: byp.setdefault(m['prop'],[]).append(m)
    sel=[]
    for pid,ms in sorted(byp.items()):
        random.shuffle(ms); sel+=ms[:int(sys.argv[1]) if len(sys.argv)>1 else 12]
    json.dump(sel,open('/root/mut/mutants.json','w'),indent=0)
    print({k:len(v) for k,v in byp.items()}, 'selected',len(sel))

if __name__=='__main__':
    main()
