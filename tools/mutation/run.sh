#!/bin/bash
# usage: run.sh <lane> <nlanes> : evaluate mutants k = lane, lane+nlanes, ...
cd /verif
lane=$1; n=$2
total=$(/venv/bin/python -c "import json;print(len(json.load(open('/root/mut/mutants.json'))))")
for ((k=lane; k<total; k+=n)); do
  wt=/tmp/rf/m_$k
  rm -rf $wt; git -C /repo worktree prune 2>/dev/null
  git -C /repo worktree add -q --detach $wt HEAD 2>/dev/null || { echo "$k WTFAIL" >> /root/mut/results_$lane.txt; continue; }
  info=$(/venv/bin/python /root/mut/apply.py $k $wt 2>&1 | tail -1)
  if [[ "$info" == OK* ]]; then
    p=$(echo $info | awk '{print $2}')
    if ! /venv/bin/python -c "import sys; sys.path.insert(0,'$wt'); import molgri.space.fullgrid, molgri.molecules.transitions, molgri.io, molgri.molecules.rate_merger, molgri.naming" > /dev/null 2>&1; then
      echo "$k $info IMPORTFAIL" >> /root/mut/results_$lane.txt
    else
      out=$(VERIF_REPO=$wt nice -n 5 ./check $p 2>&1); rc=$?
      echo "$k $info exit=$rc $(echo "$out" | grep -E 'key:' | head -1 | cut -c1-160)" >> /root/mut/results_$lane.txt
    fi
  else
    echo "$k $info" >> /root/mut/results_$lane.txt
  fi
  git -C /repo worktree remove --force $wt 2>/dev/null
done
echo "LANE $lane DONE" >> /root/mut/results_$lane.txt
