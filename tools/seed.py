#!/venv/bin/python
"""Confirm a candidate breaking change and measure which checks catch it.

usage: tools/seed.py confirm <src_dir> <seed_id> <property> [--tests f1 f2 ...]
         src_dir holds patch.diff, demo.py, notes.md (from a sub-agent).  In a fresh scratch worktree of
         /repo HEAD: demo must exit 0 clean, non-zero with the patch, and the relevant tests must pass with
         the patch.  On success the artefacts are copied to /verif/seeded/<seed_id>/ with meta.json.
       tools/seed.py detect <seed_id> [--tier quick] [--checks C01 C02 ...]
         apply seeded/<seed_id>/patch.diff to /repo, run the checks, ALWAYS revert, record in meta.json.
"""
from __future__ import annotations

import argparse
import json
import os
import shutil
import subprocess
import sys
import time
from pathlib import Path

ROOT = Path(__file__).resolve().parent.parent
SEEDED = ROOT / "seeded"
PY = "/venv/bin/python"

TESTS_FOR = {
    "molgri/molecules/transitions.py": ["tests/test_transitions.py", "tests/test_eigenvector_analysis.py", "tests/test_rate_merger.py"],
    "molgri/molecules/rate_merger.py": ["tests/test_rate_merger.py"],
    "molgri/molecules/pts.py": ["tests/test_pt.py"],
    "molgri/space/fullgrid.py": ["tests/test_fullgrid.py", "tests/test_transitions.py"],
    "molgri/space/voronoi.py": ["tests/test_voronoi.py", "tests/test_rotobj.py", "tests/test_fullgrid.py"],
    "molgri/space/rotobj.py": ["tests/test_rotobj.py", "tests/test_voronoi.py", "tests/test_fullgrid.py"],
    "molgri/space/polytopes.py": ["tests/test_polytopes.py", "tests/test_rotobj.py"],
    "molgri/space/utils.py": ["tests/test_utils.py", "tests/test_voronoi.py", "tests/test_fullgrid.py"],
    "molgri/space/translations.py": ["tests/test_parsers.py", "tests/test_fullgrid.py"],
    "molgri/naming.py": ["tests/test_parsers.py", "tests/test_fullgrid.py"],
    "molgri/constants.py": ["tests/test_parsers.py", "tests/test_fullgrid.py"],
    "molgri/io.py": ["tests/test_parsers.py", "tests/test_pt.py"],
}
BASELINE_FAIL = {"test_getting_each_molecule", "test_order_of_operations", "test_pt_len", "test_pt_rotations_body"}


def sh(cmd, cwd=None, env=None, timeout=7200):
    e = dict(os.environ)
    if env:
        e.update(env)
    p = subprocess.run(cmd, cwd=cwd, env=e, capture_output=True, text=True, timeout=timeout, shell=isinstance(cmd, str))
    return p.returncode, p.stdout + p.stderr


def touched(patch: Path):
    files = []
    for ln in patch.read_text().splitlines():
        if ln.startswith("+++ b/"):
            files.append(ln[6:].strip())
    return files


def confirm(a):
    src = Path(a.src)
    patch, demo = src / "patch.diff", src / "demo.py"
    assert patch.exists() and demo.exists(), "patch.diff / demo.py missing"
    wt = Path(f"/tmp/confirm_{a.seed_id}_{os.getpid()}")
    rc, out = sh(["git", "-C", "/repo", "worktree", "add", "-q", "--detach", str(wt), "HEAD"])
    assert rc == 0, out
    res = dict(seed=a.seed_id, property=a.property, files=touched(patch))
    try:
        env = {"PYTHONPATH": str(wt), "PYTHONWARNINGS": "ignore", "MPLBACKEND": "agg"}
        rc0, out0 = sh([PY, str(demo.resolve())], cwd=str(wt), env=env, timeout=3000)
        res["demo_clean_exit"] = rc0
        rc, out = sh(["git", "apply", str(patch.resolve())], cwd=str(wt))
        res["patch_applies"] = rc == 0
        if rc != 0:
            res["error"] = out[-500:]
            return res
        rc1, out1 = sh([PY, str(demo.resolve())], cwd=str(wt), env=env, timeout=3000)
        res["demo_patched_exit"] = rc1
        res["demo_patched_tail"] = out1[-400:]
        tests = a.tests or sorted({t for f in res["files"] for t in TESTS_FOR.get(f, [])})
        res["tests_run"] = tests
        if tests:
            t0 = time.time()
            rc2, out2 = sh([PY, "-m", "pytest", "-q", "-p", "no:cacheprovider", "--timeout=900", "-x", "--deselect", "tests/test_pt.py::test_getting_each_molecule",
                            "--deselect", "tests/test_pt.py::test_order_of_operations", "--deselect", "tests/test_pt.py::test_pt_len",
                            "--deselect", "tests/test_pt.py::test_pt_rotations_body"] + tests, cwd=str(wt), env=env, timeout=7000)
            res["tests_exit"] = rc2
            res["tests_tail"] = out2.strip().splitlines()[-1] if out2.strip() else ""
            res["tests_s"] = round(time.time() - t0)
        res["confirmed"] = bool(rc0 == 0 and rc1 != 0 and res.get("tests_exit", 0) == 0)
    finally:
        sh(["git", "-C", "/repo", "worktree", "remove", "--force", str(wt)])
        shutil.rmtree(wt, ignore_errors=True)
    if res.get("confirmed"):
        dst = SEEDED / a.seed_id
        dst.mkdir(parents=True, exist_ok=True)
        shutil.copy(patch, dst / "patch.diff")
        shutil.copy(demo, dst / "demo.py")
        if (src / "notes.md").exists():
            shutil.copy(src / "notes.md", dst / "notes.md")
        meta = dict(property=a.property, seed=a.seed_id, files=res["files"],
                    needs_to_manifest="see notes.md",
                    confirmed=dict(demo_clean_exit=rc0, demo_patched_exit=res["demo_patched_exit"], tests_run=res.get("tests_run"),
                                   tests_result=res.get("tests_tail"), where="fresh scratch worktree of /repo HEAD under /tmp, removed afterwards"),
                    detection={})
        (dst / "meta.json").write_text(json.dumps(meta, indent=1))
    return res


def detect(a):
    """run the check(s) against the seeded change in a SCRATCH worktree of /repo HEAD (VERIF_REPO), never in /repo itself"""
    dst = SEEDED / a.seed_id
    meta = json.loads((dst / "meta.json").read_text())
    checks = a.checks or [meta["property"]]
    wt = f"/tmp/rf/det_{a.seed_id}"
    sh(["git", "-C", "/repo", "worktree", "prune"])
    sh(["rm", "-rf", wt])
    rc, out = sh(["git", "-C", "/repo", "worktree", "add", "-q", "--detach", wt, "HEAD"])
    assert rc == 0, "cannot create scratch worktree: " + out
    result = {}
    try:
        rc, out = sh(["git", "-C", wt, "apply", str(dst / "patch.diff")])
        assert rc == 0, "patch does not apply to /repo HEAD: " + out
        for c in checks:
            t0 = time.time()
            rc, out = sh([str(ROOT / "check"), c, "--tier", a.tier], cwd=str(ROOT), env={"VERIF_SEED": str(a.seed), "VERIF_REPO": wt}, timeout=14000)
            keys = [ln.strip()[5:] for ln in out.splitlines() if ln.strip().startswith("key:")][:3]
            result[c] = dict(tier=a.tier, exit=rc, detected=(rc == 1), first_keys=keys, wall_s=round(time.time() - t0), where="scratch worktree via VERIF_REPO")
    finally:
        sh(["git", "-C", "/repo", "worktree", "remove", "--force", wt])
    meta.setdefault("detection", {}).update(result)
    (dst / "meta.json").write_text(json.dumps(meta, indent=1))
    return result


if __name__ == "__main__":
    ap = argparse.ArgumentParser()
    sub = ap.add_subparsers(dest="cmd", required=True)
    c = sub.add_parser("confirm")
    c.add_argument("src")
    c.add_argument("seed_id")
    c.add_argument("property")
    c.add_argument("--tests", nargs="*")
    d = sub.add_parser("detect")
    d.add_argument("seed_id")
    d.add_argument("--tier", default="quick")
    d.add_argument("--seed", default="20260927")
    d.add_argument("--checks", nargs="*")
    a = ap.parse_args()
    out = confirm(a) if a.cmd == "confirm" else detect(a)
    print(json.dumps(out, indent=1))
