#!/venv/bin/python
"""Print the 'measured on the last evidence run' table for DESIGN 11.3 from evidence/*.json and evidence_growth/*.json."""
import glob
import json
from pathlib import Path

ROOT = Path(__file__).resolve().parent.parent
print("| id | tier | TLC distinct states | TLC runs | traces / behaviours vs the implementation | implementation evaluations | known findings met | wall |")
print("|---|---|---|---|---|---|---|---|")
for f in sorted(glob.glob(str(ROOT / "evidence" / "*.json"))) + sorted(glob.glob(str(ROOT / "evidence_growth" / "*.json"))):
    d = json.load(open(f))
    c = d.get("coverage", {})
    print(f"| {d.get('property_id')} | {d.get('tier')} | {c.get('states', 0)} | {len(c.get('tlc_runs', []))} | {c.get('traces_validated_against_impl', 0)} | "
          f"{c.get('evaluations', 0)} | {len(c.get('known_findings_met', []))} | {d.get('wall_s', 0):.0f} s |")
