#!/bin/bash
# run every quick check (listed properties and growth checks) on /repo's working tree with the default seed; evidence files are rewritten
cd "$(dirname "$0")/.."
rm -f replays/*.json
for c in C01 C02 C03 C04 C05 C06 C07 C08 C09 C10 C11 C12 C13 C14 C15 C16 C17 C18 C19 C20 G01 G02 G03 G04 G05 G06 G07 G08 G09 G10 G11 G12 G13 G14 G15; do
  out=$(./check $c 2>&1); rc=$?
  echo "$c exit=$rc $(echo "$out" | grep -E '^\[' | tail -1)"
  [ $rc != 0 ] && echo "$out" | grep -E "key:|MACHINERY|Traceback" | head -4
done
