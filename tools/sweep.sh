#!/bin/bash
# usage: tools/sweep.sh <tier> <logfile> C01 C02 ...   - run the listed checks one after the other, one summary line each
cd "$(dirname "$0")/.."
tier=$1; log=$2; shift 2
for c in "$@"; do
  start=$(date +%s)
  out=$(./check $c --tier $tier 2>&1); rc=$?
  echo "$c exit=$rc wall=$(( $(date +%s) - start ))s $(echo "$out" | grep -E '^\[' | tail -1)" >> $log
  echo "$out" | grep -E "VIOLATION|key:|KNOWN-FINDING|MACHINERY|Traceback" | cut -c1-300 | head -12 | sed "s/^/    /" >> $log
done
echo "DONE $*" >> $log
